//! Hand-written deterministic scheduler: simulated threads are real OS threads released one at a
//! time; who runs next is decided by a seeded chooser, never by the OS.

use std::sync::{Condvar, Mutex};

use serde::{Deserialize, Serialize};

use crate::rng::Rng;

#[derive(Clone, Copy, Debug, PartialEq, Eq)]
pub enum PKind {
    Start,
    Lock,
    Unlock,
    Fs,
    Env,
    Visit,
    CallBoundary,
}

#[derive(Clone, Copy, Debug, PartialEq, Eq)]
enum TState {
    NotStarted,
    Waiting(PKind),
    Running,
    Done,
}

/// How the next thread is chosen. Everything is explicit so a plan is one replayable value.
#[derive(Clone, Debug, Serialize, Deserialize, PartialEq)]
#[serde(tag = "kind")]
pub enum Chooser {
    /// uniform among enabled threads
    Random { seed: u64 },
    /// stay with the running thread with probability `stay`%
    Sticky { seed: u64, stay: u32 },
    /// PCT-style: random priorities, `changes` priority-change points within `horizon` steps
    Pct { seed: u64, changes: u32, horizon: u32 },
    /// run a thread until it leaves its critical section / call, then rotate
    RoundRobinCs { first: u8 },
    /// explicit list of thread ids for the points with more than one enabled thread;
    /// the lowest enabled id when the script runs out or names a thread that is not enabled
    Scripted { script: Vec<u8> },
}

enum ChooserState {
    Random(Rng),
    Sticky(Rng, u32),
    Pct {
        prio: Vec<u32>,
        change_at: Vec<u64>,
        next_low: u32,
    },
    RoundRobinCs,
    Scripted(Vec<u8>, usize),
}

pub struct St {
    n: usize,
    current: usize,
    state: Vec<TState>,
    lock_holder: Option<usize>,
    chooser: ChooserState,
    started: usize,
    done: usize,
    /// thread chosen at every point where more than one thread was enabled
    pub trace: Vec<u8>,
    /// number of scheduling points executed
    pub steps: u64,
    /// sequence of threads that were granted the lock
    pub lock_order: Vec<u8>,
    /// number of context switches (chosen thread != yielding thread)
    pub switches: u64,
    pub capped: bool,
    pub deadlock: bool,
    step_cap: u64,
}

pub struct Sched {
    st: Mutex<St>,
    cvs: Vec<Condvar>,
    main_cv: Condvar,
}

const NOBODY: usize = usize::MAX;

impl Sched {
    pub fn new(n: usize, chooser: &Chooser, step_cap: u64) -> Self {
        let chooser = match chooser {
            Chooser::Random { seed } => ChooserState::Random(Rng::new(*seed)),
            Chooser::Sticky { seed, stay } => ChooserState::Sticky(Rng::new(*seed), *stay),
            Chooser::Pct {
                seed,
                changes,
                horizon,
            } => {
                let mut rng = Rng::new(*seed);
                let prio: Vec<u32> = rng.perm(n).into_iter().map(|p| p as u32 + 1000).collect();
                let mut change_at: Vec<u64> = (0..*changes)
                    .map(|_| rng.below((*horizon).max(1) as usize) as u64)
                    .collect();
                change_at.sort_unstable();
                ChooserState::Pct {
                    prio,
                    change_at,
                    next_low: 999,
                }
            }
            Chooser::RoundRobinCs { .. } => ChooserState::RoundRobinCs,
            Chooser::Scripted { script } => ChooserState::Scripted(script.clone(), 0),
        };
        let first = match chooser {
            ChooserState::RoundRobinCs => NOBODY,
            _ => NOBODY,
        };
        Sched {
            st: Mutex::new(St {
                n,
                current: first,
                state: vec![TState::NotStarted; n],
                lock_holder: None,
                chooser,
                started: 0,
                done: 0,
                trace: vec![],
                steps: 0,
                lock_order: vec![],
                switches: 0,
                capped: false,
                deadlock: false,
                step_cap,
            }),
            cvs: (0..n).map(|_| Condvar::new()).collect(),
            main_cv: Condvar::new(),
        }
    }

    /// Called by a simulated thread as its first action; returns when it is scheduled.
    pub fn thread_start(&self, tid: usize) {
        let mut st = self.st.lock().unwrap();
        st.state[tid] = TState::Waiting(PKind::Start);
        st.started += 1;
        if st.started == st.n {
            self.main_cv.notify_all();
        }
        while st.current != tid {
            st = self.cvs[tid].wait(st).unwrap();
        }
    }

    /// Called by the main thread: waits until every simulated thread is parked at its start,
    /// releases the first one and returns when all have finished.
    pub fn run_to_completion(&self, prefer_first: Option<usize>) {
        let mut st = self.st.lock().unwrap();
        while st.started < st.n {
            st = self.main_cv.wait(st).unwrap();
        }
        let next = st.choose(NOBODY, PKind::Start, prefer_first);
        match next {
            Some(next) => {
                st.grant(next);
                self.cvs[next].notify_one();
            }
            None => st.deadlock = st.n > 0,
        }
        while st.done < st.n && !st.deadlock {
            st = self.main_cv.wait(st).unwrap();
        }
    }

    /// A scheduling point. The calling thread posts what it is about to do and continues only
    /// when chosen.
    pub fn yield_point(&self, tid: usize, kind: PKind) {
        let mut st = self.st.lock().unwrap();
        st.steps += 1;
        if st.steps > st.step_cap {
            st.capped = true;
        }
        if kind == PKind::Unlock && st.lock_holder == Some(tid) {
            st.lock_holder = None;
        }
        st.state[tid] = TState::Waiting(kind);
        let next = match st.choose(tid, kind, None) {
            Some(n) => n,
            None => {
                st.deadlock = true;
                self.main_cv.notify_all();
                // park forever; the run is reported as a harness error
                loop {
                    st = self.cvs[tid].wait(st).unwrap();
                }
            }
        };
        st.grant(next);
        if next != tid {
            st.switches += 1;
            self.cvs[next].notify_one();
            while st.current != tid {
                st = self.cvs[tid].wait(st).unwrap();
            }
        }
    }

    /// Called by a simulated thread as its last action.
    pub fn thread_finish(&self, tid: usize) {
        let mut st = self.st.lock().unwrap();
        if st.lock_holder == Some(tid) {
            st.lock_holder = None;
        }
        st.state[tid] = TState::Done;
        st.done += 1;
        st.current = NOBODY;
        if st.done == st.n {
            self.main_cv.notify_all();
            return;
        }
        match st.choose(tid, PKind::CallBoundary, None) {
            Some(next) => {
                st.grant(next);
                st.switches += 1;
                self.cvs[next].notify_one();
            }
            None => {
                st.deadlock = true;
                self.main_cv.notify_all();
            }
        }
    }

    pub fn with_state<R>(&self, f: impl FnOnce(&St) -> R) -> R {
        f(&self.st.lock().unwrap())
    }
}

impl St {
    fn enabled(&self) -> Vec<usize> {
        (0..self.n)
            .filter(|&t| match self.state[t] {
                TState::Waiting(PKind::Lock) => self.lock_holder.is_none(),
                TState::Waiting(_) => true,
                _ => false,
            })
            .collect()
    }

    fn grant(&mut self, next: usize) {
        if self.state[next] == TState::Waiting(PKind::Lock) {
            self.lock_holder = Some(next);
            self.lock_order.push(next as u8);
        }
        self.state[next] = TState::Running;
        self.current = next;
    }

    fn choose(&mut self, me: usize, kind: PKind, prefer: Option<usize>) -> Option<usize> {
        let enabled = self.enabled();
        if enabled.is_empty() {
            return None;
        }
        if enabled.len() == 1 {
            return Some(enabled[0]);
        }
        let lowest = enabled[0];
        let me_enabled = me != NOBODY && enabled.contains(&me);
        let step = self.steps;
        let pick = if self.capped {
            lowest
        } else {
            match &mut self.chooser {
                ChooserState::Random(rng) => enabled[rng.below(enabled.len())],
                ChooserState::Sticky(rng, stay) => {
                    if me_enabled && rng.pct(*stay) {
                        me
                    } else {
                        enabled[rng.below(enabled.len())]
                    }
                }
                ChooserState::Pct {
                    prio,
                    change_at,
                    next_low,
                } => {
                    while let Some(&at) = change_at.first() {
                        if at <= step {
                            change_at.remove(0);
                            if me != NOBODY {
                                prio[me] = *next_low;
                                *next_low = next_low.saturating_sub(1);
                            }
                        } else {
                            break;
                        }
                    }
                    *enabled.iter().max_by_key(|&&t| prio[t]).unwrap()
                }
                ChooserState::RoundRobinCs => {
                    let boundary = matches!(kind, PKind::Unlock | PKind::CallBoundary);
                    if me_enabled && !boundary {
                        me
                    } else if let Some(p) = prefer.filter(|p| enabled.contains(p)) {
                        p
                    } else {
                        let from = if me == NOBODY { 0 } else { me + 1 };
                        (0..self.n)
                            .map(|i| (from + i) % self.n)
                            .find(|t| enabled.contains(t))
                            .unwrap()
                    }
                }
                ChooserState::Scripted(script, pos) => {
                    let want = script.get(*pos).map(|&t| t as usize);
                    *pos += 1;
                    match want {
                        Some(t) if enabled.contains(&t) => t,
                        _ => lowest,
                    }
                }
            }
        };
        self.trace.push(pick as u8);
        Some(pick)
    }
}
