//! Seed -> plan. Every choice of a run (swarm switches, universe, layout, names, environment,
//! initial tree, operations, chooser, fault parameters) is drawn here from one PRNG stream in a
//! fixed order; schedule and fault draws use separate streams derived from the same seed.

use std::collections::BTreeSet;

use crate::{
    corpus::{self, DER_DEFS},
    model::{self, Model},
    plan::{Cfg, Faults, InitFile, ObKind, Obstacle, Op, Phase, Plan},
    rng::{mix, Rng},
    sched::Chooser,
    tsparse::BUILTINS,
    uni::{SynSpec, Table, Ty, DER_BASE, SYN_SLOTS},
};

/// Deeper bounds in the thorough tier (set once per process from `--tier`; the quick tier's
/// draws are unaffected, so its fixed run set never changes).
static THOROUGH: std::sync::atomic::AtomicBool = std::sync::atomic::AtomicBool::new(false);

pub fn set_thorough(on: bool) {
    THOROUGH.store(on, std::sync::atomic::Ordering::Relaxed);
}

/// `quick` in the quick tier, `deep` in the thorough tier.
fn bound(quick: usize, deep: usize) -> usize {
    if THOROUGH.load(std::sync::atomic::Ordering::Relaxed) {
        deep
    } else {
        quick
    }
}

/// Swarm switches of one run.
#[derive(Clone, Debug, Default)]
pub struct Swarm {
    pub shared_files: bool,
    pub escapes: bool,
    pub dotted: bool,
    pub blank_docs: bool,
    pub ts_ts: bool,
    pub custom_dirs: bool,
    pub stale: bool,
    pub der: bool,
    pub syn: bool,
    pub prefix_names: bool,
    pub nonexportable: bool,
    pub legal_faults: bool,
    pub long_names: bool,
    pub unit_as: bool,
    /// two distinct types share one TypeScript name (in different files, never needed together)
    pub homonyms: bool,
}

const NAME_STEMS: &[&str] = &[
    "Alpha", "Beta", "Gamma", "Delta", "User", "Item", "Order", "Node", "Tree", "Leaf", "Zed", "Mu",
    "Kind", "Value", "Entry", "Page", "Quux", "Bar", "Foo", "Baz", "Wrap", "Inner", "Outer", "Pair",
    "Cfg", "Opt", "Res", "Msg", "Evt", "Cmd", "Row", "Col",
];
const NAME_SUFFIX: &[&str] = &["", "", "", "Id", "2", "_x", "Ts", "s", "Info", "A", "B", "1"];

fn draw_names(rng: &mut Rng, n: usize, prefix_names: bool, long_names: bool) -> Vec<String> {
    let mut seen: BTreeSet<String> = BTreeSet::new();
    // identifiers the corpus or TypeScript already use
    for b in BUILTINS {
        seen.insert(b.to_string());
    }
    for r in ["T", "K", "L0", "L1", "L2", "L3", "L4", "key", "Sibling", "Readonly"] {
        seen.insert(r.to_string());
    }
    let mut out = vec![];
    while out.len() < n {
        let name = if prefix_names && !out.is_empty() && rng.pct(35) {
            // extend an existing name so that one is a proper prefix of the other
            // (the names after the first DER_DEFS go to the small per-run synthetic universe: there
            // a name mostly extends another name of that universe, so that both meet in one
            // import list)
            let base: &String = if out.len() > DER_DEFS && rng.pct(75) { rng.pick(&out[DER_DEFS..]) } else { rng.pick(&out) };
            format!("{}{}", base, rng.pick(&["1", "A", "_", "x", "Z"]))
        } else {
            format!("{}{}", rng.pick(NAME_STEMS), rng.pick(NAME_SUFFIX))
        };
        // long identifiers make import lines exceed a formatter's line width
        let name = if long_names && rng.pct(60) {
            format!("{name}WithAVeryLongDescriptiveTypeName")
        } else {
            name
        };
        if seen.insert(name.clone()) {
            out.push(name);
        }
    }
    out
}

const DIRS_PLAIN: &[&str] = &["", "", "", "sub/", "sub/deep/", "api/", "api/v1/", "m/n/o/"];
const DIRS_DOTTED: &[&str] = &["a.b/", "x.ts/", "v1.2/c/", ".hidden/", "sub/./", "api/../api/"];
const DIRS_ESCAPE: &[&str] = &["../", "../out2/", "sub/../../side/", "../../up2/", "/abs2/ts/"];
const SHARED_FILES: &[&str] = &["shared.ts", "types.ts", "common/all.ts", "sub/group.ts", "mod.d.ts"];

fn draw_dir(rng: &mut Rng, sw: &Swarm) -> String {
    let mut pools: Vec<&[&str]> = vec![DIRS_PLAIN];
    if sw.dotted {
        pools.push(DIRS_DOTTED);
    }
    if sw.escapes {
        pools.push(DIRS_ESCAPE);
    }
    let pool = *rng.pick(&pools);
    rng.pick(pool).to_string()
}

/// Value of an `export_to` expression for a type called `name`.
/// An equivalent spelling of a relative path (same file after normalisation).
fn respell(rng: &mut Rng, path: &str) -> String {
    let (dir, file) = match path.rfind('/') {
        Some(i) => (&path[..=i], &path[i + 1..]),
        None => ("", path),
    };
    match rng.below(6) {
        0 => format!("./{path}"),
        1 => format!("{dir}internal/../{file}"),
        2 => format!("{dir}./{file}"),
        3 if !dir.is_empty() => format!("tmp/../{path}"),
        _ => path.to_string(),
    }
}

fn draw_export_to(rng: &mut Rng, sw: &Swarm, name: &str, shared: &[String]) -> String {
    if sw.shared_files && !shared.is_empty() && rng.pct(55) {
        let p = rng.pick(shared).clone();
        // types sharing a file need not spell its path the same way
        return if sw.dotted { respell(rng, &p) } else { p };
    }
    let dir = draw_dir(rng, sw);
    match rng.below(10) {
        0..=3 if !dir.is_empty() => dir, // directory form
        4..=7 => format!("{dir}{name}.ts"),
        8 => format!("{dir}{}.ts", name.to_lowercase()),
        _ => {
            if sw.ts_ts && rng.pct(35) {
                format!("{dir}{name}.js.ts")
            } else if sw.ts_ts && rng.pct(50) {
                format!("{dir}{name}.ts.ts")
            } else if sw.dotted {
                format!("{dir}{name}.d.ts")
            } else {
                format!("{dir}{name}.ts")
            }
        }
    }
}

const LEAVES: &[&str] = &["number", "string", "boolean", "bigint", "null", "Array<number>", "Record<string, number>"];

/// Body of a `Syn` declaration naming every dependency at least once.
fn draw_body(rng: &mut Rng, deps: &[String]) -> String {
    let fields = ["id", "name", "value", "items", "next", "kind", "meta", "a", "b", "c"];
    let wrap = |rng: &mut Rng, d: &str| -> String {
        match rng.below(6) {
            0 => format!("Array<{d}>"),
            1 => format!("{d} | null"),
            2 => format!("{{ [key in string]?: {d} }}"),
            3 => format!("[{d}, number]"),
            _ => d.to_string(),
        }
    };
    let mut members: Vec<String> = deps.iter().map(|d| wrap(rng, d)).collect();
    for _ in 0..rng.below(3) {
        members.push(rng.pick(LEAVES).to_string());
    }
    if members.is_empty() {
        members.push(rng.pick(LEAVES).to_string());
    }
    rng.shuffle(&mut members);
    match rng.below(7) {
        // one-line object
        0 | 1 => {
            let fs: Vec<String> = members
                .iter()
                .enumerate()
                .map(|(i, m)| format!("{}: {m},", fields[i % fields.len()]))
                .collect();
            format!("{{ {} }}", fs.join(" "))
        }
        // multi-line object with a documented field, as the derive renders field docs
        2 => {
            let fs: Vec<String> = members
                .iter()
                .enumerate()
                .map(|(i, m)| {
                    if i == 0 {
                        format!("\n/**\n * documented field\n */\n{}: {m},", fields[i % fields.len()])
                    } else {
                        format!("{}: {m},", fields[i % fields.len()])
                    }
                })
                .collect();
            format!("{{ {} }}", fs.join(" "))
        }
        // multi-line pretty object
        3 => {
            let fs: Vec<String> = members
                .iter()
                .enumerate()
                .map(|(i, m)| format!("  {}?: {m},\n", fields[i % fields.len()]))
                .collect();
            format!("{{\n{}}}", fs.join(""))
        }
        // tagged union
        4 => {
            let arms: Vec<String> = members
                .iter()
                .enumerate()
                .map(|(i, m)| format!("{{ \"tag\": \"v{i}\", \"data\": {m} }}"))
                .collect();
            arms.join(" | ")
        }
        // tuple
        5 => format!("[{}]", members.join(", ")),
        // union with string literals
        _ => {
            let mut arms: Vec<String> = vec!["\"from\"".into(), "\"import type\"".into()];
            arms.extend(members);
            arms.join(" | ")
        }
    }
}

/// Replace the identifier `from` by `to` where it stands as a whole word.
fn replace_word(text: &str, from: &str, to: &str) -> String {
    let mut out = String::new();
    let mut rest = text;
    let is_word = |c: char| c.is_alphanumeric() || c == '_' || c == '$';
    while let Some(i) = rest.find(from) {
        let before = rest[..i].chars().next_back();
        let after = rest[i + from.len()..].chars().next();
        out.push_str(&rest[..i]);
        if before.map(is_word).unwrap_or(false) || after.map(is_word).unwrap_or(false) {
            out.push_str(from);
        } else {
            out.push_str(to);
        }
        rest = &rest[i + from.len()..];
    }
    out.push_str(rest);
    out
}

pub struct Universe {
    pub table: Table,
    /// exportable types ops may name
    pub pool: Vec<Ty>,
    /// non-exportable Syn nodes
    pub leaves: Vec<Ty>,
}

/// Draw the table (names, layout, graph) for one run.
pub fn draw_universe(rng: &mut Rng, sw: &Swarm, n_syn: usize) -> Universe {
    let n_syn = if sw.syn { n_syn } else { 0 };
    let names = draw_names(rng, DER_DEFS + n_syn + 2, sw.prefix_names, sw.long_names);
    let shared: Vec<String> = if sw.shared_files {
        let k = rng.range(1, 3);
        let mut s = vec![];
        for _ in 0..k {
            let dir = if rng.pct(60) { String::new() } else { draw_dir(rng, sw) };
            s.push(format!("{dir}{}", rng.pick(SHARED_FILES)));
        }
        s
    } else {
        vec![]
    };
    let mut table = Table {
        syn: vec![SynSpec::default(); SYN_SLOTS],
        der_paths: vec![],
        der_names: vec![],
    };
    for i in 0..DER_DEFS {
        let name = names[i].clone();
        // D2 (def 15) carries a block doc comment with an empty line: keep it alone in its
        // file unless the run opts into that declaration shape
        let e = if i == 15 && !sw.blank_docs {
            format!("{}{name}.ts", draw_dir(rng, &Swarm { escapes: sw.escapes, ..Default::default() }))
        } else {
            draw_export_to(rng, sw, &name, &shared)
        };
        table.der_paths.push(e);
        table.der_names.push(name);
    }
    // Syn slots: pick slots by documentation kind
    let mut slots: Vec<usize> = (0..SYN_SLOTS)
        .filter(|s| sw.blank_docs || s % 8 != 4)
        .collect();
    rng.shuffle(&mut slots);
    let slots: Vec<usize> = slots.into_iter().take(n_syn).collect();
    let mut pool = vec![];
    let mut leaves = vec![];
    // leaves first (non-exportable nodes)
    let n_leaves = if sw.nonexportable && n_syn >= 3 { rng.range(1, 2) } else { 0 };
    for (k, &slot) in slots.iter().enumerate() {
        let name = names[DER_DEFS + k].clone();
        if k < n_leaves {
            table.syn[slot] = SynSpec {
                ident: rng.pick(LEAVES).to_string(),
                path: None,
                body: "never".into(),
                deps: vec![],
            };
            leaves.push(slot as Ty);
            continue;
        }
        let path = {
            let e = draw_export_to(rng, sw, &name, &shared);
            if e.ends_with('/') {
                format!("{e}{name}.ts")
            } else {
                e
            }
        };
        table.syn[slot] = SynSpec {
            ident: name,
            path: Some(path),
            body: String::new(),
            deps: vec![],
        };
        pool.push(slot as Ty);
    }
    // graph: edges mostly forward (DAG), some backward (cycles), some to leaves
    let exportable: Vec<usize> = pool.iter().map(|t| *t as usize).collect();
    for (k, &slot) in exportable.iter().enumerate() {
        let mut deps: Vec<usize> = vec![];
        for (j, &other) in exportable.iter().enumerate() {
            if j == k {
                if rng.pct(8) {
                    deps.push(other); // self reference
                }
                continue;
            }
            let p = if j > k { 35 } else { 8 };
            if rng.pct(p) {
                deps.push(other);
            }
        }
        for &l in &leaves {
            if rng.pct(30) {
                deps.push(l as usize);
            }
        }
        rng.shuffle(&mut deps);
        let dep_names: Vec<String> = deps.iter().map(|d| table.syn[*d].ident.clone()).collect();
        table.syn[slot].body = draw_body(rng, &dep_names);
        table.syn[slot].deps = deps;
    }
    // a type documented with a column-0 `export type Sibling ...` example gets a real file-mate
    // called Sibling
    if let Some(&doc_slot) = exportable.iter().find(|s| **s % 8 == 7) {
        let file = table.syn[doc_slot].path.clone();
        if let Some(&mate) = exportable.iter().find(|s| **s != doc_slot && table.syn[**s].path == file) {
            let old = table.syn[mate].ident.clone();
            for s in exportable.iter() {
                // rename in every body that mentions it (names are whole words in bodies)
                let body = table.syn[*s].body.clone();
                table.syn[*s].body = replace_word(&body, &old, "Sibling");
            }
            table.syn[mate].ident = "Sibling".into();
        }
    }
    // two distinct types with one TypeScript name (`v1::Item`, `v2::Item`): legal as long as no
    // file declares or needs both. Files are compared after lexical normalisation under a deep
    // working directory, so that two spellings of one file count as one.
    if sw.homonyms && exportable.len() >= 3 {
        let key = |slot: usize| model::norm("/h/h/h/h/h/h/h/h", table.syn[slot].path.as_deref().unwrap_or("")).unwrap_or_default();
        let mut pairs: Vec<(usize, usize)> = vec![];
        for &x in &exportable {
            for &y in &exportable {
                if x >= y || key(x) == key(y) || table.syn[x].ident == "Sibling" || table.syn[y].ident == "Sibling" {
                    continue;
                }
                // per file: the types it holds and everything they name
                let clash = exportable.iter().any(|&f| {
                    let mut has_x = false;
                    let mut has_y = false;
                    for &m in exportable.iter().filter(|&&m| key(m) == key(f)) {
                        for t in std::iter::once(m).chain(table.syn[m].deps.iter().copied()) {
                            has_x |= t == x;
                            has_y |= t == y;
                        }
                    }
                    has_x && has_y
                });
                if !clash {
                    pairs.push((x, y));
                }
            }
        }
        if !pairs.is_empty() {
            let (x, y) = *rng.pick(&pairs);
            let old = table.syn[y].ident.clone();
            let new = table.syn[x].ident.clone();
            for s in exportable.iter() {
                let body = table.syn[*s].body.clone();
                table.syn[*s].body = replace_word(&body, &old, &new);
            }
            table.syn[y].ident = new;
        }
    }
    if sw.der {
        let mut hs: Vec<usize> = (0..corpus::DER_HANDLES).collect();
        // the literal family has a `../` escape of its own
        if !sw.escapes {
            hs.retain(|h| !(corpus::L0_..=corpus::L4_).contains(h));
        }
        hs.retain(|h| !(corpus::VEC_A0..corpus::AUTO2_FROM).contains(h) && corpus::usable(*h));
        if !sw.unit_as {
            // `as` on a unit variant (known finding F7) only when the run opts in
            hs.retain(|h| *h != corpus::W3_);
        }
        // table-placed families (which can share files and move around) and the generated
        // combinatorial corpus (default placement) get an equal share of the picks
        let (mut placed, mut combos): (Vec<usize>, Vec<usize>) = hs.into_iter().partition(|h| *h < corpus::COMBO_FROM);
        rng.shuffle(&mut placed);
        rng.shuffle(&mut combos);
        let k = rng.range(2, 8);
        for _ in 0..k {
            let from = if combos.is_empty() || (!placed.is_empty() && rng.pct(60)) { &mut placed } else { &mut combos };
            if let Some(h) = from.pop() {
                pool.push(DER_BASE + h as Ty);
            }
        }
    }
    Universe { table, pool, leaves }
}

pub const CWDS: &[&str] = &["/w", "/w/x/y", "/home/u/proj"];
const ENV_DIRS: &[Option<&str>] = &[
    None,
    None,
    Some(""),
    Some("."),
    Some("../sibling-out"),
    Some("out"),
    Some("./out/"),
    Some("a/../out"),
    Some("/abs/out"),
    Some("out/./sub"),
    Some("/abs/./deep/er/"),
];

/// Spellings of the directory `abs` (absolute normalised) as seen from `cwd`.
pub fn spellings(rng: &mut Rng, cwd: &str, abs: &str) -> String {
    let rel = model::relative(cwd, abs);
    let rel = if rel.is_empty() { ".".to_string() } else { rel };
    match rng.below(7) {
        0 => rel,
        1 => format!("./{rel}"),
        2 => format!("{rel}/"),
        3 => format!("zz/../{rel}"),
        4 => abs.to_string(),
        5 => format!("{}/./{}/", model::dir_of(abs), abs.rsplit('/').next().unwrap_or("")),
        _ => format!("./{rel}/."),
    }
}

fn draw_swarm(rng: &mut Rng) -> Swarm {
    let mut sw = Swarm {
        shared_files: rng.pct(70),
        escapes: rng.pct(25),
        dotted: rng.pct(30),
        blank_docs: rng.pct(8),
        ts_ts: rng.pct(6),
        custom_dirs: rng.pct(45),
        stale: rng.pct(40),
        der: rng.pct(60),
        syn: rng.pct(75),
        prefix_names: rng.pct(50),
        nonexportable: rng.pct(40),
        legal_faults: rng.pct(50),
        long_names: false,
        unit_as: false,
        homonyms: false,
    };
    // drawn last so that adding the switch did not shift earlier draws
    sw.long_names = rng.pct(10);
    sw.unit_as = rng.pct(3);
    sw.homonyms = rng.pct(15);
    if !sw.der && !sw.syn {
        sw.syn = true;
    }
    sw
}

fn draw_faults(rng: &mut Rng, sw: &Swarm, seed: u64) -> Faults {
    if !sw.legal_faults {
        return Faults {
            seed,
            ..Default::default()
        };
    }
    Faults {
        seed,
        short_write: *rng.pick(&[0, 5, 15, 30]),
        short_read: *rng.pick(&[0, 5, 15, 30]),
        eintr: *rng.pick(&[0, 0, 3, 10]),
        hard_io_at: None,
    }
}

fn draw_chooser(rng: &mut Rng, seed: u64, nthreads: usize) -> Chooser {
    match rng.below(10) {
        0..=2 => Chooser::Random { seed },
        3..=5 => Chooser::Sticky {
            seed,
            stay: *rng.pick(&[50, 70, 90]),
        },
        6..=7 => Chooser::Pct {
            seed,
            changes: rng.range(1, 3) as u32,
            horizon: *rng.pick(&[60, 200, 600]),
        },
        _ => Chooser::RoundRobinCs {
            first: rng.below(nthreads.max(1)) as u8,
        },
    }
}

/// Make sure no type of the run lands above the root under the default base (the generator's
/// side of soundness guard 6); returns false if the layout has to be re-drawn.
fn layout_ok(model: &Model, extra_bases: &[String]) -> bool {
    let mut bases = vec![model.default_base.clone()];
    bases.extend(extra_bases.iter().cloned());
    for b in &bases {
        for (ty, i) in &model.infos {
            if i.file.is_some() && !matches!(model.location(*ty, b), Some(Ok(_))) {
                return false;
            }
        }
    }
    // output files must be `.ts` files (guard 7) and must not collide with directories
    let mut files = BTreeSet::new();
    for b in &bases {
        for ty in model.infos.keys() {
            if let Some(Ok(loc)) = model.location(*ty, b) {
                if !loc.ends_with(".ts") {
                    return false;
                }
                files.insert(loc);
            }
        }
    }
    for f in &files {
        for g in &files {
            if g.starts_with(&format!("{f}/")) {
                return false;
            }
        }
    }
    // two different declarations with one identifier in one file would be unsupported input
    true
}

fn stale_bytes(rng: &mut Rng, path: &str) -> String {
    match rng.below(4) {
        0 => format!("{}\nexport type Stale = {{ left: \"over\" }};\n", model::NOTE),
        1 => "garbage that is not a module\n\n\n".to_string(),
        2 => format!("{}import type {{ Old }} from \"./old\";\n\nexport type Old2 = Old;\n\nexport type ZOld = number;\n", model::NOTE),
        _ => format!("// stale {path}\n"),
    }
}

pub struct Drawn {
    pub plan: Plan,
    pub swarm: Swarm,
}

struct Base {
    rng: Rng,
    sw: Swarm,
    uni: Universe,
    cwd: String,
    env_dir: Option<String>,
    custom: Vec<String>,
}

fn draw_base(seed: u64, tweak: impl Fn(&mut Swarm), n_syn: (usize, usize)) -> Base {
    // re-draw until the layout is admissible; the attempt number is part of the stream
    for attempt in 0..64u64 {
        let mut rng = Rng::new(mix(&[seed, 0xBA5E, attempt]));
        let mut sw = draw_swarm(&mut rng);
        tweak(&mut sw);
        let n = rng.range(n_syn.0, n_syn.1);
        let uni = draw_universe(&mut rng, &sw, n);
        let cwd = rng.pick(CWDS).to_string();
        let env_dir = rng.pick(ENV_DIRS).map(String::from);
        let mut custom: Vec<String> = vec![];
        if sw.custom_dirs {
            for d in ["gen", "gen/ts", "/srv/types"].iter().take(rng.range(1, 3)) {
                custom.push(model::norm(&cwd, d).unwrap());
            }
        }
        if uni.pool.is_empty() {
            continue;
        }
        let mut all: Vec<Ty> = uni.pool.clone();
        all.extend(&uni.leaves);
        crate::uni::install_table(std::sync::Arc::new(uni.table.clone()));
        let m = Model::build(&uni.table, &cwd, env_dir.as_deref(), cfg!(feature = "esm"), &all);
        if !layout_ok(&m, &custom) {
            continue;
        }
        // distinct declarations must not share an identifier within one file: names are
        // distinct by construction, except the `homonyms` pair, which draw_universe only forms
        // between types of different files that no file declares or needs together
        return Base {
            rng,
            sw,
            uni,
            cwd,
            env_dir,
            custom,
        };
    }
    panic!("no admissible layout for seed {seed}");
}

fn initial_files(b: &mut Base, model_types: &[Ty], bases: &[String]) -> Vec<InitFile> {
    let mut out = vec![];
    let m = Model::build(&b.uni.table, &b.cwd, b.env_dir.as_deref(), cfg!(feature = "esm"), model_types);
    let mut targets: BTreeSet<String> = BTreeSet::new();
    for base in bases {
        for ty in m.infos.keys() {
            if let Some(Ok(loc)) = m.location(*ty, base) {
                targets.insert(loc);
            }
        }
    }
    if b.sw.stale {
        for t in &targets {
            if b.rng.pct(40) {
                out.push(InitFile {
                    path: t.clone(),
                    bytes: stale_bytes(&mut b.rng, t),
                    bystander: false,
                });
            }
        }
    }
    // bystanders: files in and around the output directories that nothing targets
    for base in bases {
        if let Ok(nb) = m.norm_base(base) {
            for name in ["README.md", "index.ts", "sub/keep.ts", "Alpha.tsx"] {
                let p = model::join(&nb, name);
                let p = model::norm("/", &p).unwrap();
                let clash = targets.iter().any(|t| *t == p || t.starts_with(&format!("{p}/")) || p.starts_with(&format!("{t}/")));
                if !clash && b.rng.pct(30) && !out.iter().any(|f: &InitFile| f.path == p) {
                    out.push(InitFile {
                        path: p.clone(),
                        bytes: format!("bystander {p}\n"),
                        bystander: true,
                    });
                }
            }
        }
    }
    out
}

fn draw_op(rng: &mut Rng, b_custom: &[String], cwd: &str, default_abs: &str, ty: Ty, weights: (u32, u32, u32)) -> Op {
    let total = weights.0 + weights.1 + weights.2;
    let x = rng.below(total as usize) as u32;
    if x < weights.0 {
        Op::Export { ty }
    } else if x < weights.0 + weights.1 {
        Op::ExportAll { ty }
    } else {
        // explicit directory: a custom one, or a spelling of the default one
        let abs = if !b_custom.is_empty() && rng.pct(60) {
            rng.pick(b_custom).clone()
        } else {
            default_abs.to_string()
        };
        Op::ExportAllTo {
            ty,
            dir: spellings(rng, cwd, &abs),
        }
    }
}

fn sched_seed(seed: u64, phase: usize) -> u64 {
    mix(&[seed, 0x5C4ED, phase as u64])
}

/// Soundness guard on the finished plan: one file must not be reachable under two different
/// base directories (a type placed with `../` lands in the same file from sibling bases, and
/// its import list then legitimately depends on which base wrote it first - overlapping
/// output directories are a layout no property speaks about).
pub fn admissible(plan: &Plan) -> bool {
    crate::uni::install_table(std::sync::Arc::new(plan.table.clone()));
    let m = Model::build(&plan.table, &plan.cfg.cwd, plan.cfg.env_dir.as_deref(), cfg!(feature = "esm"), &plan.types());
    let mut bases: std::collections::BTreeMap<String, BTreeSet<String>> = Default::default();
    for op in plan.all_ops() {
        if let Ok(adds) = crate::oracle::op_adds(&m, op) {
            for (file, _, _, base) in adds {
                bases.entry(file).or_default().insert(base);
            }
        }
    }
    bases.values().all(|b| b.len() <= 1)
}

/// Draw with `f` until the plan is admissible; the attempt number perturbs the seed.
pub fn draw_admissible(seed: u64, f: impl Fn(u64) -> Plan) -> Plan {
    for attempt in 0..32u64 {
        let s = if attempt == 0 { seed } else { mix(&[seed, 0xAD0115, attempt]) };
        let mut p = f(s);
        if admissible(&p) {
            p.seed = seed;
            return p;
        }
    }
    panic!("no admissible plan for seed {seed}");
}

/// C06: single-threaded histories over entry points, spellings, stale trees, several processes.
pub fn gen_c06(seed: u64) -> Plan {
    let mut b = draw_base(seed, |_| {}, (2, bound(7, 10)));
    let default_abs = model::norm(&b.cwd, b.env_dir.as_deref().unwrap_or("./bindings")).unwrap();
    let n_phases = if b.rng.pct(25) { 2 } else { 1 };
    let mut phases = vec![];
    for _ in 0..n_phases {
        let n_ops = b.rng.range(1, bound(8, 12));
        let mut ops = vec![];
        for _ in 0..n_ops {
            let ty = *b.rng.pick(&b.uni.pool);
            ops.push(draw_op(&mut b.rng, &b.custom, &b.cwd, &default_abs, ty, (3, 4, 3)));
        }
        phases.push(Phase {
            fresh_process: true,
            threads: vec![ops],
            chooser: Chooser::Scripted { script: vec![] },
            obstacles: vec![],
            retry_failed: false,
            queue_workers: 0,
        });
    }
    finish(b, seed, "C06", "histories", phases, 0, false)
}

/// A previous simulated process that left output behind: the realistic source of "stale"
/// files (exactly what an earlier run of the same or a smaller program wrote).
fn previous_run(b: &mut Base, default_abs: &str, with_custom: bool, weights: (u32, u32, u32)) -> Phase {
    let n = b.rng.range(1, 3);
    let mut ops = vec![];
    for _ in 0..n {
        let ty = *b.rng.pick(&b.uni.pool);
        let custom: Vec<String> = if with_custom { b.custom.clone() } else { vec![] };
        ops.push(draw_op(&mut b.rng, &custom, &b.cwd, default_abs, ty, weights));
    }
    Phase {
        fresh_process: true,
        threads: vec![ops],
        chooser: Chooser::Scripted { script: vec![] },
        obstacles: vec![],
        retry_failed: false,
        queue_workers: 0,
    }
}

/// C05: several threads exporting types that share files.
pub fn gen_c05(seed: u64) -> Plan {
    let mut b = draw_base(
        seed,
        |sw| {
            sw.shared_files = true;
            sw.custom_dirs = false;
        },
        (3, bound(8, 11)),
    );
    let default_abs = model::norm(&b.cwd, b.env_dir.as_deref().unwrap_or("./bindings")).unwrap();
    let nthreads = b.rng.range(1, bound(4, 8));
    let mut threads = vec![];
    for _ in 0..nthreads {
        let n_ops = b.rng.range(1, bound(5, 7));
        let mut ops = vec![];
        for _ in 0..n_ops {
            let ty = *b.rng.pick(&b.uni.pool);
            ops.push(draw_op(&mut b.rng, &[], &b.cwd, &default_abs, ty, (3, 5, 2)));
        }
        // a legally failing call (type without an output path) on the same thread
        if !b.uni.leaves.is_empty() && b.rng.pct(20) {
            let leaf = *b.rng.pick(&b.uni.leaves);
            let at = b.rng.below(ops.len() + 1);
            ops.insert(at, Op::ToString { ty: leaf });
        }
        threads.push(ops);
    }
    let chooser = draw_chooser(&mut b.rng, sched_seed(seed, 0), nthreads);
    let mut phases = vec![Phase {
        fresh_process: true,
        threads,
        chooser,
        obstacles: vec![],
        retry_failed: false,
        queue_workers: 0,
    }];
    if b.rng.pct(25) {
        let prev = previous_run(&mut b, &default_abs, false, (4, 4, 2));
        phases.insert(0, prev);
    }
    finish(b, seed, "C05", "threads", phases, 0, false)
}

/// C13: a simulated `cargo test`: a queue of export_all calls popped by k workers, under
/// per-type visit permutations; optionally a second process over the left-over tree.
pub fn gen_c13(seed: u64) -> Plan {
    let mut b = draw_base(
        seed,
        |sw| {
            sw.custom_dirs = false;
            sw.der = true;
        },
        (2, 7),
    );
    let visit_seed = if b.rng.pct(85) { mix(&[seed, 0x7151]) | 1 } else { 0 };
    let n_phases = if b.rng.pct(30) { 2 } else { 1 };
    let mut phases = vec![];
    for pi in 0..n_phases {
        let mut roots = b.uni.pool.clone();
        if b.rng.pct(50) {
            b.rng.shuffle(&mut roots);
        }
        let mut ops: Vec<Op> = roots.iter().map(|t| Op::ExportAll { ty: *t }).collect();
        for t in &roots {
            if b.rng.pct(25) {
                let at = b.rng.below(ops.len() + 1);
                ops.insert(at, Op::ToString { ty: *t });
            }
        }
        // calls that legally fail (a type without an output path: `export_all` fails before,
        // `export_to_string` inside, generation) interleaved with the successful ones on the same
        // worker threads: a failed call must leave nothing behind that a later one picks up
        for leaf in b.uni.leaves.clone() {
            if b.rng.pct(60) {
                let at = b.rng.below(ops.len() + 1);
                let op = if b.rng.pct(70) { Op::ToString { ty: leaf } } else { Op::ExportAll { ty: leaf } };
                ops.insert(at, op);
            }
        }
        let workers = b.rng.range(1, bound(6, 8));
        let chooser = draw_chooser(&mut b.rng, sched_seed(seed, pi), workers);
        phases.push(Phase {
            fresh_process: true,
            threads: vec![ops],
            chooser,
            obstacles: vec![],
            retry_failed: false,
            queue_workers: workers,
        });
    }
    let double = b.rng.pct(10);
    finish(b, seed, "C13", "cargo-test", phases, visit_seed, double)
}

/// C11 / C03 / C04 / C08 ride on export_all histories biased to many files and deep layouts.
pub fn gen_files(seed: u64, property: &str) -> Plan {
    let mut b = draw_base(
        seed,
        |sw| {
            sw.dotted = sw.dotted || property == "C08";
            if property == "C08" {
                sw.escapes = true;
            }
        },
        (3, bound(9, 12)),
    );
    let default_abs = model::norm(&b.cwd, b.env_dir.as_deref().unwrap_or("./bindings")).unwrap();
    let nthreads = if b.rng.pct(25) { 2 } else { 1 };
    let mut threads = vec![];
    for _ in 0..nthreads {
        let n_ops = b.rng.range(1, bound(4, 6));
        let mut ops = vec![];
        for _ in 0..n_ops {
            let ty = *b.rng.pick(&b.uni.pool);
            ops.push(draw_op(&mut b.rng, &b.custom, &b.cwd, &default_abs, ty, (0, 5, 4)));
            if property == "C11" && b.rng.pct(30) {
                ops.push(Op::Paths { ty });
            }
        }
        threads.push(ops);
    }
    let chooser = draw_chooser(&mut b.rng, sched_seed(seed, 0), nthreads);
    let mut phases = vec![Phase {
        fresh_process: true,
        threads,
        chooser,
        obstacles: vec![],
        retry_failed: false,
        queue_workers: 0,
    }];
    let visit_seed = if b.rng.pct(50) { mix(&[seed, 0x7151]) | 1 } else { 0 };
    if b.rng.pct(25) {
        let prev = previous_run(&mut b, &default_abs, true, (0, 5, 4));
        phases.insert(0, prev);
    }
    finish(b, seed, property, "files", phases, visit_seed, false)
}

/// C17 base history (fault-free); the check enumerates obstacles over it.
pub fn gen_c17(seed: u64) -> Plan {
    let mut b = draw_base(
        seed,
        |sw| {
            sw.stale = false;
            sw.blank_docs = false;
            sw.ts_ts = false;
            sw.nonexportable = true;
        },
        (3, 7),
    );
    let default_abs = model::norm(&b.cwd, b.env_dir.as_deref().unwrap_or("./bindings")).unwrap();
    // obstacles that need no placing: a type whose path climbs above the root (more `..` than
    // any base is deep) and a type that depends on it; non-exportable leaves come with the
    // universe
    let mut extra: Vec<Ty> = b.uni.leaves.clone();
    if b.sw.der {
        // non-exportable container roots whose contents are exportable
        for h in [corpus::VEC_A0, corpus::OPT_USEG, corpus::BOX_C0] {
            if b.rng.pct(50) {
                extra.push(DER_BASE + h as Ty);
            }
        }
    }
    if b.rng.pct(40) {
        let free: Vec<usize> = (0..SYN_SLOTS)
            .filter(|s| b.uni.table.syn[*s].ident.is_empty() && s % 8 != 4)
            .collect();
        if free.len() >= 3 {
            let (up, parent, grand) = (free[0], free[1], free[2]);
            let sibling = b.uni.pool.iter().copied().find(|t| (*t as usize) < SYN_SLOTS);
            // the above-root type has a (valid) dependency of its own: failing on the root
            // must not have written that dependency first
            let (up_body, up_deps) = match sibling {
                Some(sib) if b.rng.pct(60) => (format!("{{ dep: {}, }}", b.uni.table.syn[sib as usize].ident), vec![sib as usize]),
                _ => ("number".to_string(), vec![]),
            };
            b.uni.table.syn[up] = SynSpec {
                ident: "AboveRoot".into(),
                // far above the root, or (the boundary) exactly one `..` more than the default
                // base directory is deep
                path: Some(if b.rng.pct(50) {
                    "../../../../../../../../../up/AboveRoot.ts".to_string()
                } else {
                    let depth = default_abs.split('/').filter(|c| !c.is_empty()).count();
                    format!("{}up/AboveRoot.ts", "../".repeat(depth + 1))
                }),
                body: up_body,
                deps: up_deps,
            };
            let mut deps = vec![up];
            let mut body = "{ up: AboveRoot, }".to_string();
            if let Some(sib) = sibling {
                deps.insert(0, sib as usize);
                body = format!("{{ first: {}, up: AboveRoot, }}", b.uni.table.syn[sib as usize].ident);
            }
            b.uni.table.syn[parent] = SynSpec {
                ident: "NeedsAboveRoot".into(),
                path: Some("NeedsAboveRoot.ts".into()),
                body,
                deps,
            };
            // two levels above the failing leaf: the error has to travel up through a
            // dependency that itself only fails because of its own dependency
            b.uni.table.syn[grand] = SynSpec {
                ident: "Grand".into(),
                path: Some("Grand.ts".into()),
                body: "{ mid: NeedsAboveRoot, }".into(),
                deps: vec![parent],
            };
            extra.push(up as Ty);
            extra.push(parent as Ty);
            extra.push(grand as Ty);
            extra.push(grand as Ty);
        }
    }
    let two = b.rng.pct(15);
    let nthreads = if two { 2 } else { 1 };
    let mut threads = vec![];
    for _ in 0..nthreads {
        let n_ops = b.rng.range(1, if two { 3 } else { 6 });
        let mut ops = vec![];
        for _ in 0..n_ops {
            let ty = if !extra.is_empty() && !two && b.rng.pct(20) {
                *b.rng.pick(&extra)
            } else {
                *b.rng.pick(&b.uni.pool)
            };
            if b.rng.pct(8) {
                // the string entry point must report the same obstacles as an error too
                ops.push(Op::ToString { ty });
            } else {
                ops.push(draw_op(&mut b.rng, &b.custom, &b.cwd, &default_abs, ty, (3, 5, 2)));
            }
        }
        threads.push(ops);
    }
    let chooser = draw_chooser(&mut b.rng, sched_seed(seed, 0), nthreads);
    let phases = vec![Phase {
        fresh_process: true,
        threads,
        chooser,
        obstacles: vec![],
        retry_failed: two,
        queue_workers: 0,
    }];
    finish(b, seed, "C17", if two { "two-threads" } else { "single" }, phases, 0, false)
}

fn finish(mut b: Base, seed: u64, property: &str, profile: &str, phases: Vec<Phase>, visit_seed: u64, double_exec: bool) -> Plan {
    let mut tys: Vec<Ty> = phases
        .iter()
        .flat_map(|p| p.threads.iter().flatten().map(|o| o.ty()))
        .collect();
    tys.sort_unstable();
    tys.dedup();
    let mut bases: Vec<String> = vec![b.env_dir.clone().unwrap_or_else(|| "./bindings".into())];
    for p in &phases {
        for op in p.threads.iter().flatten() {
            if let Op::ExportAllTo { dir, .. } = op {
                bases.push(dir.clone());
            }
        }
    }
    let initial = initial_files(&mut b, &tys, &bases);
    let faults = draw_faults(&mut b.rng, &b.sw, mix(&[seed, 0xFA17]));
    Plan {
        property: property.to_string(),
        seed,
        profile: profile.to_string(),
        cfg: Cfg {
            cwd: b.cwd.clone(),
            env_dir: b.env_dir.clone(),
            initial,
            faults,
        },
        table: b.uni.table,
        visit_seed,
        phases,
        step_cap: 20_000,
        double_exec,
    }
}

/// Candidate obstacles for the call `idx` of thread 0 of a single-threaded C17 history.
pub fn obstacles_for(model: &Model, op: &Op) -> Vec<(ObKind, String)> {
    let mut out: Vec<(ObKind, String)> = vec![];
    let Ok(adds) = crate::oracle::op_adds(model, op) else {
        return out;
    };
    let base = match op {
        Op::ExportAllTo { dir, .. } => dir.clone(),
        _ => model.default_base.clone(),
    };
    let Ok(nbase) = model.norm_base(&base) else {
        return out;
    };
    let mut seen = BTreeSet::new();
    for (file, _, _, _) in &adds {
        if seen.insert((0, file.clone())) {
            out.push((ObKind::TargetIsDir, file.clone()));
        }
        // every directory component from the base down to the file's directory, and the
        // base's own last component
        let mut d = model::dir_of(file);
        loop {
            if d == "/" {
                break;
            }
            let below_base = d.starts_with(&format!("{nbase}/")) || d == nbase;
            if !below_base {
                break;
            }
            if seen.insert((1, d.clone())) {
                out.push((ObKind::ParentIsFile, d.clone()));
            }
            d = model::dir_of(&d);
        }
    }
    out
}

pub fn with_obstacle(base: &Plan, idx: usize, kind: ObKind, path: &str) -> Plan {
    let mut p = base.clone();
    let ops = &mut p.phases[0].threads[0];
    let op = ops[idx].clone();
    // the faulted call, then the retry of the same call once the obstacle is gone
    ops.insert(idx + 1, op);
    p.phases[0].obstacles = vec![Obstacle {
        kind,
        path: path.to_string(),
        thread: 0,
        place_before: idx,
        remove_before: idx + 1,
    }];
    p
}
