//! In-memory file system stub with POSIX error semantics for the calls ts-rs makes.
//! Paths are resolved component by component as the kernel does, not lexically.

use std::{collections::BTreeMap, io};

pub const ENOENT: i32 = 2;
pub const EINTR: i32 = 4;
pub const EIO: i32 = 5;
pub const EBADF: i32 = 9;
pub const EACCES: i32 = 13;
pub const EEXIST: i32 = 17;
pub const ENOTDIR: i32 = 20;
pub const EISDIR: i32 = 21;
pub const EINVAL: i32 = 22;
pub const ENOSPC: i32 = 28;

pub fn errno(code: i32) -> io::Error {
    io::Error::from_raw_os_error(code)
}

#[derive(Clone, Debug, PartialEq, Eq)]
pub enum Node {
    Dir,
    File(Vec<u8>),
}

#[derive(Clone, Debug)]
struct Fd {
    path: String,
    off: u64,
    read: bool,
    write: bool,
}

#[derive(Clone, Debug)]
pub struct SimFs {
    /// absolute normalised path ("/" or "/a/b") -> node
    pub nodes: BTreeMap<String, Node>,
    pub cwd: String,
    fds: BTreeMap<u64, Fd>,
    next_fd: u64,
}

fn join_key(dir: &[String], name: Option<&str>) -> String {
    let mut s = String::new();
    for c in dir {
        s.push('/');
        s.push_str(c);
    }
    if let Some(n) = name {
        s.push('/');
        s.push_str(n);
    }
    if s.is_empty() {
        s.push('/');
    }
    s
}

pub fn parent_key(key: &str) -> Option<String> {
    if key == "/" {
        return None;
    }
    let i = key.rfind('/').unwrap();
    Some(if i == 0 { "/".into() } else { key[..i].into() })
}

impl SimFs {
    pub fn new(cwd: &str) -> Self {
        let mut fs = SimFs {
            nodes: BTreeMap::new(),
            cwd: "/".into(),
            fds: BTreeMap::new(),
            next_fd: 3,
        };
        fs.nodes.insert("/".into(), Node::Dir);
        fs.mkdir_p(cwd);
        fs.cwd = cwd.to_string();
        fs
    }

    /// Set-up helper (not a simulated syscall): create all directories of an absolute key.
    pub fn mkdir_p(&mut self, key: &str) {
        let mut cur = String::new();
        for c in key.split('/').filter(|c| !c.is_empty()) {
            cur.push('/');
            cur.push_str(c);
            self.nodes.entry(cur.clone()).or_insert(Node::Dir);
        }
    }

    /// Set-up helper: place a file at an absolute normalised key, creating parents.
    pub fn put_file(&mut self, key: &str, bytes: &[u8]) {
        if let Some(p) = parent_key(key) {
            self.mkdir_p(&p);
        }
        self.nodes.insert(key.to_string(), Node::File(bytes.to_vec()));
    }

    /// Kernel-like resolution. Returns the key the path denotes and whether it exists.
    pub fn resolve(&self, path: &str) -> Result<(String, bool), i32> {
        if path.is_empty() {
            return Err(ENOENT);
        }
        let mut cur: Vec<String> = if path.starts_with('/') {
            vec![]
        } else {
            self.cwd
                .split('/')
                .filter(|c| !c.is_empty())
                .map(String::from)
                .collect()
        };
        let comps: Vec<&str> = path.split('/').filter(|c| !c.is_empty()).collect();
        let trailing_slash = path.ends_with('/') && !comps.is_empty();
        let n = comps.len();
        for (i, comp) in comps.iter().enumerate() {
            let last = i + 1 == n;
            match *comp {
                "." => {}
                ".." => {
                    cur.pop();
                }
                name => {
                    let key = join_key(&cur, Some(name));
                    match self.nodes.get(&key) {
                        None => {
                            return if last { Ok((key, false)) } else { Err(ENOENT) };
                        }
                        Some(Node::Dir) => cur.push(name.to_string()),
                        Some(Node::File(_)) => {
                            return if last && !trailing_slash {
                                Ok((key, true))
                            } else {
                                Err(ENOTDIR)
                            };
                        }
                    }
                }
            }
        }
        Ok((join_key(&cur, None), true))
    }

    pub fn mkdir(&mut self, path: &str) -> Result<(), i32> {
        let (key, exists) = self.resolve(path)?;
        if exists {
            return Err(EEXIST);
        }
        self.nodes.insert(key, Node::Dir);
        Ok(())
    }

    pub fn is_dir(&self, path: &str) -> bool {
        match self.resolve(path) {
            Ok((key, true)) => matches!(self.nodes.get(&key), Some(Node::Dir)),
            _ => false,
        }
    }

    /// Returns (fd, key, created, truncated_len).
    pub fn open(
        &mut self,
        path: &str,
        read: bool,
        write: bool,
        create: bool,
        truncate: bool,
    ) -> Result<(u64, String, bool, Option<usize>), i32> {
        let (key, exists) = self.resolve(path)?;
        let mut created = false;
        let mut truncated = None;
        if !exists {
            if !create {
                return Err(ENOENT);
            }
            if path.ends_with('/') {
                return Err(EISDIR);
            }
            self.nodes.insert(key.clone(), Node::File(vec![]));
            created = true;
        } else {
            match self.nodes.get_mut(&key).unwrap() {
                Node::Dir => {
                    if write || create || truncate {
                        return Err(EISDIR);
                    }
                }
                Node::File(bytes) => {
                    if truncate && write {
                        truncated = Some(bytes.len());
                        bytes.clear();
                    }
                }
            }
        }
        let fd = self.next_fd;
        self.next_fd += 1;
        self.fds.insert(
            fd,
            Fd {
                path: key.clone(),
                off: 0,
                read,
                write,
            },
        );
        Ok((fd, key, created, truncated))
    }

    /// `rename(2)` for regular files (directories are not moved by anything under test).
    pub fn rename(&mut self, from: &str, to: &str) -> Result<(String, String), i32> {
        let (fk, fexists) = self.resolve(from)?;
        if !fexists {
            return Err(ENOENT);
        }
        let (tk, texists) = self.resolve(to)?;
        if matches!(self.nodes.get(&fk), Some(Node::Dir)) {
            return Err(EINVAL);
        }
        if texists && matches!(self.nodes.get(&tk), Some(Node::Dir)) {
            return Err(EISDIR);
        }
        let node = self.nodes.remove(&fk).unwrap();
        self.nodes.insert(tk.clone(), node);
        for f in self.fds.values_mut() {
            if f.path == fk {
                f.path = tk.clone();
            }
        }
        Ok((fk, tk))
    }

    pub fn unlink(&mut self, path: &str) -> Result<String, i32> {
        let (k, exists) = self.resolve(path)?;
        if !exists {
            return Err(ENOENT);
        }
        if matches!(self.nodes.get(&k), Some(Node::Dir)) {
            return Err(EISDIR);
        }
        self.nodes.remove(&k);
        Ok(k)
    }

    /// `(is_dir, len)` of an existing path.
    pub fn stat(&self, path: &str) -> Result<(bool, u64), i32> {
        let (k, exists) = self.resolve(path)?;
        if !exists {
            return Err(ENOENT);
        }
        Ok(match self.nodes.get(&k) {
            Some(Node::Dir) => (true, 4096),
            Some(Node::File(b)) => (false, b.len() as u64),
            None => return Err(ENOENT),
        })
    }

    pub fn fd_key(&self, fd: u64) -> Option<&str> {
        self.fds.get(&fd).map(|f| f.path.as_str())
    }

    /// Is some descriptor open on a path at or below `key`?
    pub fn has_open_under(&self, key: &str) -> bool {
        let prefix = format!("{key}/");
        self.fds.values().any(|f| f.path == key || f.path.starts_with(&prefix))
    }

    pub fn open_fds(&self) -> usize {
        self.fds.len()
    }

    pub fn fstat_len(&self, fd: u64) -> Result<u64, i32> {
        let f = self.fds.get(&fd).ok_or(EBADF)?;
        match self.nodes.get(&f.path) {
            Some(Node::File(b)) => Ok(b.len() as u64),
            Some(Node::Dir) => Ok(4096),
            None => Ok(0),
        }
    }

    /// Reads at most `max` bytes.
    pub fn read(&mut self, fd: u64, buf: &mut [u8], max: usize) -> Result<usize, i32> {
        let f = self.fds.get_mut(&fd).ok_or(EBADF)?;
        if !f.read {
            return Err(EBADF);
        }
        let bytes = match self.nodes.get(&f.path) {
            Some(Node::File(b)) => b,
            Some(Node::Dir) => return Err(EISDIR),
            None => return Ok(0),
        };
        let off = (f.off as usize).min(bytes.len());
        let n = buf.len().min(max).min(bytes.len() - off);
        buf[..n].copy_from_slice(&bytes[off..off + n]);
        f.off += n as u64;
        Ok(n)
    }

    /// Writes at most `max` bytes.
    pub fn write(&mut self, fd: u64, buf: &[u8], max: usize) -> Result<usize, i32> {
        let f = self.fds.get_mut(&fd).ok_or(EBADF)?;
        if !f.write {
            return Err(EBADF);
        }
        let bytes = match self.nodes.get_mut(&f.path) {
            Some(Node::File(b)) => b,
            _ => return Err(EBADF),
        };
        let n = buf.len().min(max);
        let off = f.off as usize;
        if bytes.len() < off {
            bytes.resize(off, 0);
        }
        let overlap = n.min(bytes.len() - off);
        bytes[off..off + overlap].copy_from_slice(&buf[..overlap]);
        bytes.extend_from_slice(&buf[overlap..n]);
        f.off += n as u64;
        Ok(n)
    }

    pub fn seek(&mut self, fd: u64, pos: io::SeekFrom) -> Result<u64, i32> {
        let len = self.fstat_len(fd)? as i64;
        let f = self.fds.get_mut(&fd).ok_or(EBADF)?;
        let new = match pos {
            io::SeekFrom::Start(n) => n as i64,
            io::SeekFrom::End(d) => len + d,
            io::SeekFrom::Current(d) => f.off as i64 + d,
        };
        if new < 0 {
            return Err(EINVAL);
        }
        f.off = new as u64;
        Ok(f.off)
    }

    pub fn set_len(&mut self, fd: u64, len: u64) -> Result<String, i32> {
        let f = self.fds.get(&fd).ok_or(EBADF)?;
        if !f.write {
            return Err(EINVAL);
        }
        let key = f.path.clone();
        match self.nodes.get_mut(&key) {
            Some(Node::File(b)) => {
                b.resize(len as usize, 0);
                Ok(key)
            }
            _ => Err(EBADF),
        }
    }

    pub fn close(&mut self, fd: u64) {
        self.fds.remove(&fd);
    }

    /// All regular files: key -> bytes.
    pub fn files(&self) -> BTreeMap<String, Vec<u8>> {
        self.nodes
            .iter()
            .filter_map(|(k, n)| match n {
                Node::File(b) => Some((k.clone(), b.clone())),
                Node::Dir => None,
            })
            .collect()
    }

    pub fn file(&self, key: &str) -> Option<&[u8]> {
        match self.nodes.get(key) {
            Some(Node::File(b)) => Some(b),
            _ => None,
        }
    }

    /// Remove a node and (for directories) everything below it; returns what was removed.
    pub fn remove_subtree(&mut self, key: &str) -> Vec<(String, Node)> {
        let prefix = format!("{key}/");
        let keys: Vec<String> = self
            .nodes
            .keys()
            .filter(|k| *k == key || k.starts_with(&prefix))
            .cloned()
            .collect();
        keys.into_iter()
            .map(|k| {
                let n = self.nodes.remove(&k).unwrap();
                (k, n)
            })
            .collect()
    }

    pub fn restore(&mut self, nodes: Vec<(String, Node)>) {
        for (k, n) in nodes {
            self.nodes.insert(k, n);
        }
    }
}

#[cfg(test)]
mod tests {
    use super::*;

    #[test]
    fn resolution_is_kernel_like() {
        let mut fs = SimFs::new("/w");
        fs.mkdir_p("/w/bindings");
        fs.put_file("/w/bindings/a.ts", b"x");
        assert_eq!(fs.resolve("./bindings/../x.ts"), Ok(("/w/x.ts".into(), false)));
        assert_eq!(fs.resolve("./missing/../x.ts"), Err(ENOENT));
        assert_eq!(fs.resolve("bindings/a.ts/b"), Err(ENOTDIR));
        assert_eq!(fs.resolve("../../../../up.ts"), Ok(("/up.ts".into(), false)));
        assert_eq!(fs.resolve(""), Err(ENOENT));
        assert_eq!(fs.mkdir("bindings"), Err(EEXIST));
        assert_eq!(fs.mkdir("q/r"), Err(ENOENT));
        assert_eq!(fs.mkdir("bindings/a.ts/r"), Err(ENOTDIR));
        assert!(fs.open("bindings", false, true, true, true).is_err());
    }
}
