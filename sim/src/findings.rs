//! Known findings (read-only at run time) and the feature extraction their predicates use.

use std::collections::BTreeSet;

use serde::Deserialize;

use crate::{
    check::Case,
    exec::{model_of, Violation},
    oracle,
    plan::Op,
};

#[derive(Deserialize, Debug, Clone)]
pub struct Known {
    pub id: String,
    pub property: String,
    /// "open" entries suppress matching violations; "fixed" entries suppress nothing
    pub status: String,
    pub what: String,
    /// the minimised violation must come from one of these oracles ...
    #[serde(default)]
    pub oracles: Vec<String>,
    /// ... and its minimised replay must have all of these features
    #[serde(default)]
    pub requires: Vec<String>,
    /// configuration (default / esm / format) the entry applies to; empty = any
    #[serde(default)]
    pub configs: Vec<String>,
}

#[derive(Deserialize, Debug, Default)]
struct File {
    #[serde(default)]
    findings: Vec<Known>,
}

pub fn load(path: &str) -> Vec<Known> {
    match std::fs::read_to_string(path) {
        Ok(t) => match serde_json::from_str::<File>(&t) {
            Ok(f) => f.findings,
            Err(e) => {
                eprintln!("HARNESS ERROR: {path} is not valid: {e}");
                std::process::exit(2);
            }
        },
        Err(_) => vec![],
    }
}

pub fn config_name() -> &'static str {
    if cfg!(feature = "format") {
        "format"
    } else if cfg!(feature = "esm") {
        "esm"
    } else {
        "default"
    }
}

pub fn matching<'a>(known: &'a [Known], prop: &str, v: &Violation) -> Option<&'a Known> {
    known.iter().find(|k| {
        k.status == "open"
            && k.property == prop
            && (k.configs.is_empty() || k.configs.iter().any(|c| c == config_name()))
            && (k.oracles.is_empty() || k.oracles.contains(&v.oracle))
            && k.requires.iter().all(|r| v.features.contains(r))
    })
}

/// Facts about a minimised case and its violation that known-finding predicates refer to.
pub fn features(case: &Case, v: &Violation) -> Vec<String> {
    let plan = case.plan();
    let model = model_of(plan);
    let mut f: BTreeSet<String> = BTreeSet::new();
    // which declarations can be in the failing file
    let mut in_file: Vec<u16> = vec![];
    for op in plan.all_ops() {
        if let Ok(adds) = oracle::op_adds(&model, op) {
            for (file, _, ty, _) in adds {
                if v.file.as_deref() == Some(file.as_str()) || v.file.is_none() {
                    in_file.push(ty);
                }
            }
        }
    }
    in_file.sort_unstable();
    in_file.dedup();
    // a per-type import statement longer than a formatter's line width gets wrapped
    for op in plan.all_ops() {
        if let Ok(adds) = oracle::op_adds(&model, op) {
            for (_, _, ty, base) in adds {
                if let Ok(groups) = model.imports(ty, &base) {
                    for (spec, names) in groups {
                        let names: Vec<&str> = names.iter().map(String::as_str).collect();
                        let line = format!("import type {{ {} }} from \"{}\";", names.join(", "), spec);
                        if line.len() > 80 {
                            f.insert("import-line-longer-than-80-columns".into());
                        }
                    }
                }
            }
        }
    }
    if in_file.iter().any(|t| model.info(*t).block().contains("\n\n")) {
        f.insert("failing-file-holds-declaration-with-empty-line".into());
    }
    if in_file.len() >= 2 {
        f.insert("failing-file-shared".into());
    }
    let kinds: BTreeSet<&str> = plan.all_ops().map(|o| o.kind()).collect();
    if kinds.contains("export") {
        f.insert("uses-export-without-dependencies".into());
    }
    if kinds.contains("export_all_to") {
        f.insert("uses-explicit-directory".into());
    }
    for op in plan.all_ops() {
        if let Op::ExportAllTo { dir, .. } = op {
            if model.norm_base(dir).ok() != model.norm_base(&model.default_base).ok() {
                f.insert("explicit-directory-differs-from-default".into());
            }
        }
    }
    for i in model.infos.values() {
        if let Some(file) = &i.file {
            if file.ends_with(".ts.ts") {
                f.insert("file-name-ends-in-ts-ts".into());
            }
            if file.starts_with("../") || file.contains("/../") {
                f.insert("type-placed-outside-base".into());
            }
        }
    }
    if plan.phases.iter().any(|p| p.threads.len() > 1 || p.queue_workers > 1) {
        f.insert("multi-threaded".into());
    }
    if plan.visit_seed != 0 {
        f.insert("visit-order-permuted".into());
    }
    if plan.phases.len() > 1 {
        f.insert("several-processes".into());
    }
    // derived corpus shapes named by the calls (after minimisation usually one)
    for op in plan.all_ops() {
        let ty = op.ty();
        if ty >= crate::uni::DER_BASE {
            let label = crate::corpus::MANIFEST[(ty - crate::uni::DER_BASE) as usize].label;
            f.insert(format!("root:{label}"));
        }
    }
    if let Case::Faulted { kind, .. } = case {
        f.insert(format!("obstacle-{kind:?}"));
    }
    f.insert(format!("config-{}", config_name()));
    f.into_iter().collect()
}

/// Probes a thorough run of a property is expected to hit; a probe stuck at zero is reported
/// as `probe_starved` in the evidence (a coverage defect of the workload, not a violation).
pub fn expected_probes(prop: &str) -> &'static [&'static str] {
    match prop {
        "C05" => &["merge_path_taken", "critical_section_without_write", "lock_handover_same_file", "short_write", "short_read", "first_touch_truncated_existing_bytes"],
        "C06" => &["merge_path_taken", "first_touch_truncated_existing_bytes", "critical_section_without_write"],
        "C13" => &["merge_path_taken", "non_identity_visit_order", "lock_handover_same_file"],
        "C17" => &["obstacle_placed", "obstacle_removed", "obstacle:TargetIsDir", "obstacle:ParentIsFile"],
        _ => &["file_created"],
    }
}
