//! Per-property checks: expand a case, execute it (plus reference executions where an oracle
//! needs them), collect violations and coverage facts.

use std::collections::{BTreeMap, BTreeSet};

use serde::{Deserialize, Serialize};

use crate::{
    exec::{execute, model_of, CallResult, Exec, ExecOpts, Violation},
    gen,
    model::{self, Model},
    oracle::{self, ExpectErr},
    plan::{ObKind, Op, Phase, Plan},
    sched::Chooser,
    tsparse,
};

/// One unit of exploration, fully explicit; this is what a replay file stores.
#[derive(Clone, Debug, Serialize, Deserialize, PartialEq)]
#[serde(tag = "case")]
pub enum Case {
    Plain { plan: Plan },
    /// C17: `base` fault-free history + one obstacle before call `idx` of thread `thread`,
    /// removed before the retry of that call
    Faulted {
        base: Plan,
        thread: usize,
        idx: usize,
        kind: ObKind,
        path: String,
    },
    /// Observational only (never a violation): a hard I/O error (EACCES on open/mkdir, ENOSPC
    /// on write with a partial write, EIO on fsync) at the `at`-th data-path call of the
    /// single-threaded history `base`; every failed call is repeated afterwards
    HardIo { base: Plan, at: u64 },
    /// the same at every data-path call index of `base` (enumerated inside the case's process)
    HardIoSweep { base: Plan },
}

impl Case {
    pub fn plan(&self) -> &Plan {
        match self {
            Case::Plain { plan } => plan,
            Case::Faulted { base, .. } | Case::HardIo { base, .. } | Case::HardIoSweep { base } => base,
        }
    }
    pub fn plan_mut(&mut self) -> &mut Plan {
        match self {
            Case::Plain { plan } => plan,
            Case::Faulted { base, .. } | Case::HardIo { base, .. } | Case::HardIoSweep { base } => base,
        }
    }
}

#[derive(Clone, Debug, Default, Serialize, Deserialize)]
pub struct Outcome {
    /// violations tagged with the property under check
    pub own: Vec<Violation>,
    /// violations tagged only with other properties
    pub foreign: Vec<Violation>,
    pub execs: u64,
    pub steps: u64,
    pub capped: bool,
    pub probes: BTreeMap<String, u64>,
    pub fired: BTreeMap<String, u64>,
    /// is this case non-trivial by the property's rule, and its distinctness signature
    pub nontrivial: bool,
    pub signature: u64,
    pub interleaving: u64,
    pub lock_order: Vec<u8>,
    pub final_tree_hash: u64,
    pub shapes: BTreeSet<String>,
    /// schedule actually taken by the primary execution, per phase
    pub traces: Vec<Vec<u8>>,
    pub log_hash: u64,
    pub harness_error: Option<String>,
}

fn opts_for(_prop: &str, snapshots: bool) -> ExecOpts {
    ExecOpts {
        snapshots,
        no_invariants: false,
        no_render: cfg!(feature = "format"),
    }
}

fn absorb(out: &mut Outcome, e: &Exec) {
    out.execs += 1;
    for p in &e.phases {
        out.steps += p.steps;
        out.capped |= p.capped;
    }
    out.steps += e.log.len() as u64;
    for (k, v) in &e.probes {
        *out.probes.entry(k.clone()).or_insert(0) += v;
    }
    for (k, v) in &e.fired {
        *out.fired.entry(k.clone()).or_insert(0) += v;
    }
}

fn tree_hash(files: &BTreeMap<String, Vec<u8>>) -> u64 {
    let mut h = 0u64;
    for (k, v) in files {
        h = crate::rng::mix(&[h, crate::rng::fnv(k.as_bytes()), crate::rng::fnv(v)]);
    }
    h
}

pub fn log_hash(e: &Exec) -> u64 {
    let mut h = e.interleaving_hash;
    for l in &e.log {
        h = crate::rng::mix(&[h, l.seq, l.thread as u64, l.op as u64, l.n as u64, l.errno as u64, crate::rng::fnv(l.key.as_bytes())]);
    }
    for c in &e.calls {
        h = crate::rng::mix(&[h, c.seq_start, c.seq_end, crate::rng::fnv(c.result.short().as_bytes())]);
    }
    crate::rng::mix(&[h, tree_hash(&e.final_files)])
}

/// Canonical counterpart of a plan: same calls, one thread per process, sorted, canonical
/// spellings, identity visit order, no perturbations.
pub fn canonical(plan: &Plan, model: &Model) -> Plan {
    let mut p = plan.clone();
    p.visit_seed = 0;
    p.double_exec = false;
    p.cfg.faults = Default::default();
    for ph in &mut p.phases {
        let mut ops: Vec<Op> = ph.threads.iter().flatten().cloned().collect();
        for op in &mut ops {
            if let Op::ExportAllTo { dir, .. } = op {
                if let Ok(n) = model.norm_base(dir) {
                    *dir = n;
                }
            }
        }
        ops.sort_by_key(|o| {
            (
                model.info(o.ty()).ident.clone(),
                o.kind(),
                match o {
                    Op::ExportAllTo { dir, .. } => dir.clone(),
                    _ => String::new(),
                },
                o.ty(),
            )
        });
        ph.threads = vec![ops];
        ph.queue_workers = 0;
        ph.chooser = Chooser::Scripted { script: vec![] };
        ph.obstacles.clear();
        ph.retry_failed = false;
    }
    p
}

fn split(prop: &str, vs: Vec<Violation>, out: &mut Outcome) {
    for v in vs {
        if v.tags.iter().any(|t| t == prop) {
            out.own.push(v);
        } else {
            out.foreign.push(v);
        }
    }
}

fn shape_sig(plan: &Plan, model: &Model) -> u64 {
    // history shape: per phase/thread the sequence of (op kind, file of the root, custom dir?)
    let mut h = 0u64;
    for ph in &plan.phases {
        h = crate::rng::mix(&[h, 0xF, ph.queue_workers as u64]);
        for t in &ph.threads {
            h = crate::rng::mix(&[h, 0xE]);
            for op in t {
                let i = model.info(op.ty());
                h = crate::rng::mix(&[
                    h,
                    crate::rng::fnv(op.kind().as_bytes()),
                    crate::rng::fnv(i.file.as_deref().unwrap_or("").as_bytes()),
                    crate::rng::fnv(i.ident.as_bytes()),
                ]);
            }
        }
    }
    h
}

/// Checks shared by the plain (non-C17) properties.
pub fn check_plain(prop: &str, plan: &Plan) -> Outcome {
    let mut out = Outcome::default();
    let model = model_of(plan);
    let snapshots = matches!(prop, "C06" | "C11" | "C03" | "C08" | "C04");
    let opts = opts_for(prop, snapshots);
    let e = execute(plan, opts);
    absorb(&mut out, &e);
    out.traces = e.phases.iter().map(|p| p.trace.clone()).collect();
    out.interleaving = e.interleaving_hash;
    out.lock_order = e.phases.iter().flat_map(|p| p.lock_order.clone()).collect();
    out.final_tree_hash = tree_hash(&e.final_files);
    out.log_hash = log_hash(&e);
    if out.capped {
        return out; // discarded, never counted as a pass
    }
    let perturbed = plan.cfg.faults.hard_io_at.is_some();
    let no_render = cfg!(feature = "format");
    let judge = |e: &Exec| -> (Vec<Violation>, BTreeSet<String>) {
        let mut vs = e.violations.clone();
        vs.extend(oracle::check_results(plan, &model, e, perturbed));
        vs.extend(oracle::check_final_tree(plan, &model, e, no_render));
        vs.extend(oracle::check_idempotence(plan, &model, e));
        vs.extend(oracle::check_strings(plan, &model, e));
        vs.extend(oracle::check_c11(plan, &model, e));
        // files of the last simulated process: those it opened for writing plus those the
        // model says it exported to (an implementation may legitimately skip rewriting
        // identical bytes)
        let mut last_written = e.written.last().cloned().unwrap_or_default();
        let first_of_last = (0..plan.phases.len()).rev().find(|p| plan.phases[*p].fresh_process).unwrap_or(0);
        for c in e.calls.iter().filter(|c| c.phase >= first_of_last && c.result.is_ok()) {
            if let Ok(adds) = oracle::op_adds(&model, &c.op) {
                last_written.extend(adds.into_iter().map(|a| a.0));
            }
        }
        let closed = !plan
            .phases
            .last()
            .map(|p| p.threads.iter().flatten().any(|o| matches!(o, Op::Export { .. })))
            .unwrap_or(false)
            && e.calls.iter().all(|c| c.result.is_ok());
        let (iv, shapes) = oracle::check_imports(&model, &e.final_files, &last_written, closed, "final tree");
        vs.extend(iv);
        vs.extend(oracle::check_layout(&e.final_files, &last_written, no_render, "final tree"));
        if snapshots && matches!(prop, "C03" | "C08" | "C04") {
            // the same on every intermediate tree of single-threaded phases
            let mut written: BTreeSet<String> = BTreeSet::new();
            let mut phase = usize::MAX;
            for c in &e.calls {
                if c.phase != phase {
                    phase = c.phase;
                    if plan.phases[phase].fresh_process {
                        written.clear();
                    }
                }
                if let (Some(snap), Ok(adds)) = (&c.snapshot, oracle::op_adds(&model, &c.op)) {
                    if c.result.is_ok() {
                        written.extend(adds.into_iter().map(|a| a.0));
                    }
                    let (iv, _) = oracle::check_imports(&model, snap, &written, false, &format!("after call {}", c.idx));
                    vs.extend(iv);
                    vs.extend(oracle::check_layout(snap, &written, no_render, &format!("after call {}", c.idx)));
                }
            }
        }
        (vs, shapes)
    };
    let (mut vs, shapes) = judge(&e);
    out.shapes = shapes;
    // metamorphic reference: the canonical history must give the same tree
    if matches!(prop, "C05" | "C06" | "C13") && !perturbed {
        let canon = canonical(plan, &model);
        if &canon != plan {
            let ce = execute(&canon, opts_for(prop, false));
            absorb(&mut out, &ce);
            vs.extend(oracle::diff_trees(
                &e.final_files,
                &ce.final_files,
                "final tree versus the canonical history (one thread, sorted calls, canonical spellings, identity visit order)",
                &["C05", "C06", "C13"],
            ));
            // string results must agree too
            let texts = |x: &Exec| -> BTreeMap<u16, String> {
                x.calls
                    .iter()
                    .filter_map(|c| match (&c.op, &c.result) {
                        (Op::ToString { ty }, CallResult::Text { text }) => Some((*ty, text.clone())),
                        _ => None,
                    })
                    .collect()
            };
            let (a, b) = (texts(&e), texts(&ce));
            for (ty, t) in &a {
                if b.get(ty).map(|x| x != t).unwrap_or(false) {
                    vs.push(Violation::new(
                        "string-diff",
                        &["C13"],
                        None,
                        format!("{}::export_to_string() differs between this run and the canonical run", model.info(*ty).label),
                    ));
                }
            }
        }
    }
    if plan.double_exec {
        // the same plan once more in the same OS process: nothing but the registry (which a
        // fresh simulated process resets) may carry over, so the second execution is judged by
        // the same oracles and its event log must equal the first one's
        let e2 = execute(plan, opts);
        absorb(&mut out, &e2);
        let (v2, _) = judge(&e2);
        for mut v in v2 {
            if !vs.iter().any(|x| x.oracle == v.oracle && x.file == v.file) {
                v.detail = format!("second execution of the same plan in the same OS process: {}", v.detail);
                vs.push(v);
            }
        }
        if log_hash(&e2) != out.log_hash {
            let mut d = oracle::diff_trees(&e.final_files, &e2.final_files, "same plan executed twice in one process", &["C13", prop]);
            if d.is_empty() {
                d.push(Violation::new(
                    "double-exec",
                    &["C13", prop],
                    None,
                    "same plan executed twice with identical simulator choices produced different event logs".into(),
                ));
            }
            vs.extend(d);
        }
    }
    // non-triviality per property
    let multi = plan.phases.iter().any(|p| p.threads.len() > 1 || p.queue_workers > 1);
    let merged = e.probes.get("merge_path_taken").copied().unwrap_or(0) > 0;
    let kinds: BTreeSet<&str> = plan.all_ops().map(|o| o.kind()).collect();
    let dirs: BTreeSet<&String> = plan
        .all_ops()
        .filter_map(|o| match o {
            Op::ExportAllTo { dir, .. } => Some(dir),
            _ => None,
        })
        .collect();
    let files_written: usize = e.written.iter().map(|w| w.len()).sum();
    out.nontrivial = match prop {
        "C05" => merged,
        "C06" => merged && (kinds.len() >= 2 || dirs.len() >= 2),
        "C13" => multi || e.probes.get("non_identity_visit_order").copied().unwrap_or(0) > 0,
        "C11" => files_written >= 2,
        "C03" | "C08" => !out.shapes.is_empty(),
        "C04" => files_written >= 1,
        _ => true,
    };
    out.signature = match prop {
        "C05" | "C13" => crate::rng::mix(&[shape_sig(plan, &model), crate::rng::fnv(&out.lock_order), plan.visit_seed]),
        "C03" | "C08" | "C11" | "C04" => crate::rng::mix(&[shape_sig(plan, &model), out.final_tree_hash]),
        _ => shape_sig(plan, &model),
    };
    split(prop, vs, &mut out);
    out
}

fn done_before(model: &Model, ops: &[Op]) -> BTreeSet<(String, String)> {
    let mut done = BTreeSet::new();
    for op in ops {
        done.extend(oracle::op_may_add(model, op));
    }
    done
}

fn under(path: &str, file: &str) -> bool {
    file == path || file.starts_with(&format!("{path}/"))
}

/// C17, single-threaded: the fault-free reference execution of `base`, then the faulted one.
pub fn check_faulted(base: &Plan, thread: usize, idx: usize, kind: ObKind, path: &str) -> Outcome {
    let mut out = Outcome::default();
    let model = model_of(base);
    let two = base.phases[0].threads.len() > 1;
    if two {
        return check_faulted_two(base, thread, idx, kind, path);
    }
    let opts = opts_for("C17", true);
    let reference = execute(base, opts);
    absorb(&mut out, &reference);
    let faulted_plan = gen::with_obstacle(base, idx, kind, path);
    let e = execute(&faulted_plan, opts);
    absorb(&mut out, &e);
    out.log_hash = log_hash(&e);
    out.final_tree_hash = tree_hash(&e.final_files);
    let mut vs: Vec<Violation> = e.violations.clone();
    let ops = &base.phases[0].threads[0];
    let op = &ops[idx];
    let label = format!("{}({})", op.kind(), model.info(op.ty()).label);
    let what = format!("{kind:?} at {path} before call {idx} {label}");
    // no call may panic, anywhere
    for c in &e.calls {
        if let CallResult::Panic { msg } = &c.result {
            vs.push(Violation::new("panic", &["C17"], None, format!("{what}: call {} {}({}) panicked: {msg}", c.idx, c.op.kind(), model.info(c.op.ty()).label)));
        }
    }
    let adds = oracle::op_adds(&model, op).unwrap_or_default();
    let done = done_before(&model, &ops[..idx]);
    let must_fire = adds
        .iter()
        .any(|a| under(path, &a.0) && !done.contains(&(a.0.clone(), a.1.clone())));
    let faulted = e.calls.iter().find(|c| c.idx == idx);
    let retry = e.calls.iter().find(|c| c.idx == idx + 1);
    let (Some(faulted), Some(retry)) = (faulted, retry) else {
        out.harness_error = Some("faulted execution lacks the faulted call or its retry".into());
        return out;
    };
    let fired = faulted.result.is_err();
    out.nontrivial = fired;
    if must_fire && faulted.result.is_ok() {
        vs.push(Violation::new(
            "obstacle-ignored",
            &["C17"],
            Some(path),
            format!("{what}: the call returned Ok although it has to write below the blocked path"),
        ));
    }
    // (b) isolation: tree before (with the obstacle in place) versus tree after the failed call
    let before: BTreeMap<String, Vec<u8>> = {
        let prev = if idx == 0 {
            reference.initial_files.clone()
        } else {
            reference
                .calls
                .iter()
                .find(|c| c.idx == idx - 1)
                .and_then(|c| c.snapshot.clone())
                .unwrap_or_default()
        };
        let mut b: BTreeMap<String, Vec<u8>> = prev.into_iter().filter(|(k, _)| !under(path, k)).collect();
        if kind == ObKind::ParentIsFile {
            b.insert(path.to_string(), b"obstacle: a regular file where a directory is needed\n".to_vec());
        }
        b
    };
    let after = faulted.snapshot.clone().unwrap_or_default();
    let expected_files: BTreeSet<&str> = adds.iter().map(|a| a.0.as_str()).collect();
    let keys: BTreeSet<&String> = before.keys().chain(after.keys()).collect();
    for k in keys {
        let (b, a) = (before.get(k), after.get(k));
        if b == a {
            continue;
        }
        if !expected_files.contains(k.as_str()) {
            vs.push(Violation::new(
                "isolation",
                &["C17"],
                Some(k),
                format!("{what}: the failed call changed a file outside the set it is to write"),
            ));
            continue;
        }
        // inside the set: must be a complete, parsing file for a subset of what belongs there
        let ok = a
            .and_then(|x| std::str::from_utf8(x).ok())
            .and_then(|t| tsparse::parse_module(t).ok())
            .map(|m| {
                m.decls.iter().all(|d| {
                    adds.iter().any(|x| &x.0 == k && x.1 == d.name) || done.contains(&(k.clone(), d.name.clone()))
                })
            })
            .unwrap_or(false);
        if !ok {
            vs.push(Violation::new(
                "torn-file",
                &["C17"],
                Some(k),
                format!("{what}: after the failed call the file is neither unchanged nor a complete module for a subset of its types"),
            ));
        }
    }
    // (c) retry after removal
    if !retry.result.is_ok() {
        vs.push(Violation::new(
            "retry-failed",
            &["C17"],
            None,
            format!("{what}: after the obstacle was removed, repeating the call gave {}", retry.result.short()),
        ));
    }
    let ref_after = reference.calls.iter().find(|c| c.idx == idx).and_then(|c| c.snapshot.clone()).unwrap_or_default();
    let retry_after = retry.snapshot.clone().unwrap_or_default();
    vs.extend(oracle::diff_trees(
        &retry_after,
        &ref_after,
        &format!("{what}: tree after the retried call versus the fault-free execution at the same step"),
        &["C17"],
    ));
    // (d) the rest of the history
    vs.extend(oracle::diff_trees(
        &e.final_files,
        &reference.final_files,
        &format!("{what}: final tree versus the fault-free execution"),
        &["C17"],
    ));
    for c in e.calls.iter().filter(|c| c.idx > idx + 1) {
        let r = reference.calls.iter().find(|r| r.idx == c.idx - 1);
        if let Some(r) = r {
            if r.result.is_ok() != c.result.is_ok() {
                vs.push(Violation::new(
                    "later-call-affected",
                    &["C17"],
                    None,
                    format!("{what}: later call {} gave {} but {} in the fault-free execution", c.idx - 1, c.result.short(), r.result.short()),
                ));
            }
        }
    }
    out.signature = crate::rng::mix(&[shape_sig(base, &model), idx as u64, kind as u64, crate::rng::fnv(path.as_bytes()), fired as u64]);
    if fired {
        *out.fired.entry(format!("obstacle:{kind:?}")).or_insert(0) += 1;
    } else {
        *out.probes.entry("obstacle_not_fired".into()).or_insert(0) += 1;
    }
    split("C17", vs, &mut out);
    out
}

fn check_faulted_two(base: &Plan, thread: usize, idx: usize, kind: ObKind, path: &str) -> Outcome {
    let mut out = Outcome::default();
    let model = model_of(base);
    let mut p = base.clone();
    let op = p.phases[0].threads[thread][idx].clone();
    p.phases[0].threads[thread].insert(idx + 1, op);
    p.phases[0].obstacles = vec![crate::plan::Obstacle {
        kind,
        path: path.to_string(),
        thread,
        place_before: idx,
        remove_before: idx + 1,
    }];
    p.phases[0].retry_failed = true;
    let e = execute(&p, opts_for("C17", false));
    absorb(&mut out, &e);
    out.traces = e.phases.iter().map(|p| p.trace.clone()).collect();
    out.log_hash = log_hash(&e);
    let mut vs = e.violations.clone();
    for c in &e.calls {
        if let CallResult::Panic { msg } = &c.result {
            vs.push(Violation::new("panic", &["C17"], None, format!("two threads, {kind:?} at {path}: call panicked: {msg}")));
        }
        if c.retry && !c.result.is_ok() {
            vs.push(Violation::new("retry-failed", &["C17"], None, format!("two threads, {kind:?} at {path}: retry of a failed call gave {}", c.result.short())));
        }
    }
    let fired = e.calls.iter().any(|c| c.result.is_err());
    out.nontrivial = fired;
    // after every failed call was repeated the tree must be what the model expects
    let fv = oracle::check_final_tree(base, &model, &e, cfg!(feature = "format"));
    for mut v in fv {
        v.tags = vec!["C17".into()];
        v.detail = format!("two threads, {kind:?} at {path} before call {idx} of thread {thread}, all failed calls retried: {}", v.detail);
        vs.push(v);
    }
    out.signature = crate::rng::mix(&[shape_sig(base, &model), idx as u64, thread as u64, kind as u64, crate::rng::fnv(path.as_bytes()), crate::rng::fnv(&e.phases[0].lock_order)]);
    if fired {
        *out.fired.entry(format!("obstacle:{kind:?}")).or_insert(0) += 1;
    }
    split("C17", vs, &mut out);
    out
}

/// C17 base history: fault-free run (including non-exportable and above-root calls, which are
/// obstacles that need no placing).
pub fn check_c17_base(plan: &Plan) -> Outcome {
    let mut out = Outcome::default();
    let model = model_of(plan);
    let single = plan.phases[0].threads.len() == 1;
    let e = execute(plan, opts_for("C17", single));
    absorb(&mut out, &e);
    out.traces = e.phases.iter().map(|p| p.trace.clone()).collect();
    out.log_hash = log_hash(&e);
    let mut vs = e.violations.clone();
    vs.extend(oracle::check_results(plan, &model, &e, false));
    vs.extend(oracle::check_final_tree(plan, &model, &e, cfg!(feature = "format")));
    if single {
        // calls the model expects to fail outright must touch nothing
        let mut prev = e.initial_files.clone();
        for c in &e.calls {
            let Some(snap) = &c.snapshot else { continue };
            let expect = oracle::op_adds(&model, &c.op);
            let root_only = match (&expect, &c.op) {
                (Err(ExpectErr::NotExportable), _) => true,
                (Err(ExpectErr::AboveRoot), Op::Export { .. }) => true,
                (Err(ExpectErr::AboveRoot), op) => {
                    // the root itself is above the root directory: nothing may be written
                    let base = match op {
                        Op::ExportAllTo { dir, .. } => dir.clone(),
                        _ => model.default_base.clone(),
                    };
                    matches!(model.location(op.ty(), &base), Some(Err(_))) || model.norm_base(&base).is_err()
                }
                _ => false,
            };
            if root_only {
                out.nontrivial = true;
                *out.fired.entry(format!("obstacle:{:?}", expect.as_ref().err().unwrap())).or_insert(0) += 1;
                vs.extend(oracle::diff_trees(
                    snap,
                    &prev,
                    &format!("call {} {}({}) cannot be carried out ({:?}) and must touch nothing", c.idx, c.op.kind(), model.info(c.op.ty()).label, expect.err().unwrap()),
                    &["C17"],
                ));
            }
            prev = snap.clone();
        }
    }
    out.signature = shape_sig(plan, &model);
    split("C17", vs, &mut out);
    out
}

/// Bumped once per checked case; a watchdog in the worker process turns a stalled simulation
/// (e.g. code under test blocking on a lock the scheduler does not know about) into a harness
/// error instead of a hang. It never influences a run.
pub static PROGRESS: std::sync::atomic::AtomicU64 = std::sync::atomic::AtomicU64::new(0);

/// Run `check_case` in a forked child of this (pristine, single-threaded) process, so that every
/// case starts from untouched process-wide state: whatever the code under test keeps in statics
/// (the export registry, or anything a change adds) cannot leak from one case into the next.
/// Returns `Err` if the child died or stalled.
pub fn check_case_isolated(prop: &str, case: &Case) -> Result<Outcome, String> {
    PROGRESS.fetch_add(1, std::sync::atomic::Ordering::Relaxed);
    unsafe {
        let mut fds = [0i32; 2];
        if libc::pipe(fds.as_mut_ptr()) != 0 {
            return Err("pipe failed".into());
        }
        let pid = libc::fork();
        if pid < 0 {
            return Err("fork failed".into());
        }
        if pid == 0 {
            libc::close(fds[0]);
            // a stalled simulation must not hang the batch
            libc::alarm(240);
            let out = check_case(prop, case);
            let bytes = serde_json::to_vec(&out).unwrap_or_default();
            let mut off = 0;
            while off < bytes.len() {
                let n = libc::write(fds[1], bytes[off..].as_ptr() as *const libc::c_void, bytes.len() - off);
                if n <= 0 {
                    break;
                }
                off += n as usize;
            }
            libc::close(fds[1]);
            libc::_exit(0);
        }
        libc::close(fds[1]);
        let mut buf = Vec::with_capacity(1 << 14);
        let mut chunk = [0u8; 1 << 14];
        loop {
            let n = libc::read(fds[0], chunk.as_mut_ptr() as *mut libc::c_void, chunk.len());
            if n <= 0 {
                break;
            }
            buf.extend_from_slice(&chunk[..n as usize]);
        }
        libc::close(fds[0]);
        let mut status = 0i32;
        libc::waitpid(pid, &mut status, 0);
        if buf.is_empty() {
            return Err(format!(
                "the process running the case ended without a result (wait status {status:#x}): it crashed, or stalled for 240 s because the code under test blocks on something the scheduler does not control"
            ));
        }
        serde_json::from_slice(&buf).map_err(|e| format!("bad outcome from child: {e}"))
    }
}

pub fn check_case(prop: &str, case: &Case) -> Outcome {
    PROGRESS.fetch_add(1, std::sync::atomic::Ordering::Relaxed);
    match case {
        Case::Plain { plan } => {
            if prop == "C17" {
                check_c17_base(plan)
            } else {
                check_plain(prop, plan)
            }
        }
        Case::Faulted {
            base,
            thread,
            idx,
            kind,
            path,
        } => check_faulted(base, *thread, *idx, *kind, path),
        Case::HardIo { base, at } => observe_hard_io(base, *at),
        Case::HardIoSweep { base } => {
            let n = data_calls(&execute(base, ExecOpts { snapshots: false, no_invariants: true, no_render: true }));
            let mut total = Outcome::default();
            for at in 1..=n.min(60) {
                let o = observe_hard_io(base, at);
                total.execs += o.execs;
                total.steps += o.steps;
                for (k, v) in o.probes {
                    *total.probes.entry(k).or_insert(0) += v;
                }
                for (k, v) in o.fired {
                    *total.fired.entry(k).or_insert(0) += v;
                }
                total.log_hash = crate::rng::mix(&[total.log_hash, o.log_hash]);
            }
            total
        }
    }
}

/// Number of data-path calls (mkdir / open / write / fsync) of an execution.
pub fn data_calls(e: &Exec) -> u64 {
    e.log
        .iter()
        .filter(|l| matches!(l.op, crate::exec::FsOp::Mkdir | crate::exec::FsOp::OpenRw | crate::exec::FsOp::OpenTrunc | crate::exec::FsOp::OpenOther | crate::exec::FsOp::Write | crate::exec::FsOp::Fsync))
        .count() as u64
}

/// X-hard-io: tallies only. C17's statement enumerates its obstacles and a hard I/O error in the
/// middle of an in-place rewrite is not among them, so nothing here can fail the check.
fn observe_hard_io(base: &Plan, at: u64) -> Outcome {
    let mut out = Outcome::default();
    let reference = execute(base, ExecOpts { snapshots: false, no_invariants: true, no_render: true });
    absorb(&mut out, &reference);
    let mut p = base.clone();
    p.cfg.faults.hard_io_at = Some(at);
    for ph in &mut p.phases {
        ph.retry_failed = true;
    }
    let e = execute(&p, ExecOpts { snapshots: false, no_invariants: true, no_render: true });
    absorb(&mut out, &e);
    out.log_hash = log_hash(&e);
    let mut tally = |k: &str| *out.probes.entry(format!("observed_hard_io:{k}")).or_insert(0) += 1;
    let fired = e.fired.keys().any(|k| k.starts_with("hard_io:"));
    if !fired {
        tally("fault_not_reached");
        return out;
    }
    let first = e.calls.iter().filter(|c| !c.retry).find(|c| !c.result.is_ok());
    match first.map(|c| &c.result) {
        Some(CallResult::Err { .. }) => tally("call_returned_error"),
        Some(CallResult::Panic { .. }) => tally("call_panicked"),
        _ => tally("error_swallowed_call_returned_ok"),
    }
    if e.calls.iter().any(|c| !c.retry && c.result.is_panic()) && e.calls.iter().filter(|c| !c.retry && c.result.is_panic()).count() > 1 {
        tally("later_calls_panicked_too");
    }
    // a retry counts as failed only if the same call succeeds in the fault-free execution
    let ok_in_reference = |c: &crate::exec::CallRecord| reference.calls.iter().any(|r| r.list == c.list && r.idx == c.idx && r.result.is_ok());
    if e.calls.iter().any(|c| c.retry && !c.result.is_ok() && ok_in_reference(c)) {
        tally("retry_failed");
    }
    if e.calls.iter().any(|c| c.retry && c.result.is_panic()) {
        tally("retry_panicked");
    }
    if e.final_files == reference.final_files {
        tally("recovered_after_retry");
    } else {
        tally("tree_differs_after_retry");
    }
    out.nontrivial = false;
    out
}

/// Expand one seed into the cases of a property.
pub fn cases_for(prop: &str, seed: u64) -> Vec<Case> {
    match prop {
        "C05" => vec![Case::Plain { plan: gen::draw_admissible(seed, gen::gen_c05) }],
        "C06" => vec![Case::Plain { plan: gen::draw_admissible(seed, gen::gen_c06) }],
        "C13" => vec![Case::Plain { plan: gen::draw_admissible(seed, gen::gen_c13) }],
        "C03" | "C04" | "C08" | "C11" => vec![Case::Plain { plan: gen::draw_admissible(seed, |s| gen::gen_files(s, prop)) }],
        "C17" => {
            let base = gen::draw_admissible(seed, gen::gen_c17);
            let model = model_of(&base);
            let mut cases = vec![Case::Plain { plan: base.clone() }];
            for (t, ops) in base.phases[0].threads.iter().enumerate() {
                for (idx, op) in ops.iter().enumerate() {
                    for (kind, path) in gen::obstacles_for(&model, op) {
                        cases.push(Case::Faulted {
                            base: base.clone(),
                            thread: t,
                            idx,
                            kind,
                            path,
                        });
                    }
                }
            }
            // observational hard I/O errors on a tenth of the single-threaded histories
            if base.phases[0].threads.len() == 1 && seed % 10 == 0 {
                cases.push(Case::HardIoSweep { base: base.clone() });
            }
            cases
        }
        _ => panic!("no generator for {prop}"),
    }
}

#[allow(dead_code)]
fn _unused(_: &Phase) {}
