//! tsrs-sim: deterministic simulation with fault injection for ts-rs's export runtime.
//!
//!   tsrs-sim run <PROP> --tier quick|thorough [--runs N] [--workers W] --evidence <file>
//!   tsrs-sim worker <PROP> --seed S --from A --to B --stride K      (internal)
//!   tsrs-sim replay <file>
//!   tsrs-sim selftest determinism [--runs N]
//!   tsrs-sim dump
//!
//! Exit status: 0 property held on everything explored, 1 violation (with a
//! `VIOLATION property=<id> replay=<path>` line), 2 harness error.

mod check;
mod combo;
mod corpus;
mod exec;
mod findings;
mod gen;
mod minimise;
mod model;
mod oracle;
mod plan;
mod rng;
mod sched;
mod simfs;
mod tsparse;
mod uni;

use std::{
    collections::{BTreeMap, BTreeSet},
    io::Read,
    process::{Command, Stdio},
    time::Instant,
};

use serde::{Deserialize, Serialize};
use serde_json::json;

use crate::{
    check::{cases_for, check_case, Case},
    exec::Violation,
};

pub const PROPS: &[&str] = &["C03", "C04", "C05", "C06", "C08", "C11", "C13", "C17"];

#[derive(Serialize, Deserialize, Default, Debug)]
pub struct FoundViolation {
    pub seed: u64,
    pub index: u64,
    pub violation: Violation,
    pub case: Option<Case>,
    pub original_ops: usize,
    pub minimised_ops: usize,
    pub confirmed: bool,
}

#[derive(Serialize, Deserialize, Default, Debug)]
pub struct WorkerReport {
    pub seeds: u64,
    pub cases: u64,
    pub execs: u64,
    pub steps: u64,
    pub capped: u64,
    pub nontrivial: u64,
    pub signatures: BTreeSet<u64>,
    pub interleavings: BTreeSet<u64>,
    pub lock_orders: BTreeSet<u64>,
    pub trees: BTreeSet<u64>,
    pub shapes: BTreeSet<String>,
    pub probes: BTreeMap<String, u64>,
    pub fired: BTreeMap<String, u64>,
    pub enabled: BTreeMap<String, u64>,
    pub profiles: BTreeMap<String, u64>,
    pub violations: Vec<FoundViolation>,
    pub violations_total: u64,
    pub untriaged: u64,
    pub known_unminimised: u64,
    pub foreign: BTreeMap<String, u64>,
    pub samples: Vec<serde_json::Value>,
    pub log_hashes: Vec<(u64, u64)>,
    pub harness_errors: Vec<String>,
}

fn prop_seed(base: u64, prop: &str, index: u64) -> u64 {
    rng::mix(&[base, rng::fnv(prop.as_bytes()), index])
}

fn arg<'a>(args: &'a [String], name: &str) -> Option<&'a str> {
    args.iter()
        .position(|a| a == name)
        .and_then(|i| args.get(i + 1))
        .map(String::as_str)
}

fn sample_of(case: &Case, out: &check::Outcome) -> serde_json::Value {
    let plan = case.plan();
    let model = exec::model_of(plan);
    let phases: Vec<serde_json::Value> = plan
        .phases
        .iter()
        .enumerate()
        .map(|(pi, ph)| {
            let threads: Vec<Vec<String>> = ph
                .threads
                .iter()
                .map(|t| {
                    t.iter()
                        .map(|op| {
                            let i = model.info(op.ty());
                            match op {
                                plan::Op::ExportAllTo { dir, .. } => format!("export_all_to({} -> {:?}, {:?})", i.ident, i.file, dir),
                                _ => format!("{}({} -> {:?})", op.kind(), i.ident, i.file),
                            }
                        })
                        .collect()
                })
                .collect();
            json!({
                "fresh_process": ph.fresh_process,
                "queue_workers": ph.queue_workers,
                "threads": threads,
                "chooser": ph.chooser,
                "schedule_prefix": out.traces.get(pi).map(|t| t.iter().take(40).copied().collect::<Vec<u8>>()),
            })
        })
        .collect();
    let fault = match case {
        Case::Faulted { thread, idx, kind, path, .. } => json!({"thread": thread, "before_call": idx, "kind": format!("{kind:?}"), "path": path}),
        Case::HardIo { at, .. } => json!({"kind": "hard I/O error (observational)", "at_data_call": at}),
        Case::HardIoSweep { .. } => json!({"kind": "hard I/O error at every data-path call (observational)"}),
        _ => json!(null),
    };
    json!({
        "seed": plan.seed,
        "profile": plan.profile,
        "cwd": plan.cfg.cwd,
        "TS_RS_EXPORT_DIR": plan.cfg.env_dir,
        "initial_files": plan.cfg.initial.iter().map(|f| f.path.clone()).collect::<Vec<_>>(),
        "faults": plan.cfg.faults,
        "visit_seed": plan.visit_seed,
        "phases": phases,
        "obstacle": fault,
        "final_tree_digest": format!("{:016x}", out.final_tree_hash),
        "steps": out.steps,
    })
}

fn run_worker(prop: &str, base_seed: u64, from: u64, to: u64, stride: u64, offset: u64, minimise_budget: usize, max_unknown: usize, known: &[findings::Known]) -> WorkerReport {
    let mut rep = WorkerReport::default();
    let mut i = from + offset;
    while i < to {
        let seed = prop_seed(base_seed, prop, i);
        let cases = cases_for(prop, seed);
        rep.seeds += 1;
        for case in cases {
            // one forked OS process per case: pristine process-wide state every time
            // (VERIF_NO_FORK=1 is for tools/coverage.sh only: forked children leave through
            // _exit and would not write their coverage profiles)
            let isolated = if std::env::var_os("VERIF_NO_FORK").is_some() {
                Ok(check_case(prop, &case))
            } else {
                check::check_case_isolated(prop, &case)
            };
            let out = match isolated {
                Ok(o) => o,
                Err(e) => {
                    rep.harness_errors.push(format!("seed {seed}: {e}"));
                    continue;
                }
            };
            rep.cases += 1;
            rep.execs += out.execs;
            rep.steps += out.steps;
            if let Some(h) = &out.harness_error {
                rep.harness_errors.push(format!("seed {seed}: {h}"));
            }
            if out.capped {
                rep.capped += 1;
                continue;
            }
            *rep.profiles.entry(case.plan().profile.clone()).or_insert(0) += 1;
            let f = &case.plan().cfg.faults;
            for (k, on) in [("short_write", f.short_write > 0), ("short_read", f.short_read > 0), ("eintr", f.eintr > 0), ("hard_io", matches!(case, Case::HardIo { .. } | Case::HardIoSweep { .. }))] {
                if on {
                    *rep.enabled.entry(k.to_string()).or_insert(0) += 1;
                }
            }
            if out.nontrivial {
                rep.nontrivial += 1;
                rep.signatures.insert(out.signature);
            }
            rep.interleavings.insert(out.interleaving);
            rep.lock_orders.insert(rng::fnv(&out.lock_order));
            rep.trees.insert(out.final_tree_hash);
            rep.shapes.extend(out.shapes.iter().cloned());
            for (k, v) in &out.probes {
                *rep.probes.entry(k.clone()).or_insert(0) += v;
            }
            for (k, v) in &out.fired {
                *rep.fired.entry(k.clone()).or_insert(0) += v;
            }
            for v in &out.foreign {
                *rep.foreign.entry(format!("{}[{}]", v.oracle, v.tags.join(","))).or_insert(0) += 1;
            }
            if rep.samples.len() < 2 && out.nontrivial {
                rep.samples.push(sample_of(&case, &out));
            }
            rep.log_hashes.push((seed, out.log_hash));
            if !out.own.is_empty() {
                rep.violations_total += 1;
                // triage: every violation of the case is matched against the known findings on
                // the unminimised case first; a case all of whose violations match is minimised
                // only within the budget, any other case is always minimised
                let raw_unknown = out.own.iter().find(|v| {
                    let mut v = (*v).clone();
                    v.features = findings::features(&case, &v);
                    findings::matching(known, prop, &v).is_none()
                });
                let must = raw_unknown.is_some();
                if (must && rep.violations.len() < minimise_budget + max_unknown) || rep.violations.len() < minimise_budget {
                    let target = raw_unknown.cloned().unwrap_or_else(|| out.own[0].clone());
                    let original_ops = case.plan().n_ops();
                    // confirm in a fresh OS process, then minimise (every candidate is
                    // evaluated in a fresh process too, so the replay file reproduces)
                    let same = |vs: &[Violation]| vs.iter().any(|v| v.oracle == target.oracle);
                    let mut start_case = case.clone();
                    let mut traces = out.traces.clone();
                    let mut confirmed = match minimise::fresh_eval(prop, &case) {
                        Some((vs, _)) => same(&vs),
                        None => false,
                    };
                    if !confirmed {
                        // not reproducible in isolation: the code under test keeps state across
                        // what the simulator treats as process boundaries. Executing the plan
                        // twice in one process makes that state part of the replay.
                        if let Case::Plain { plan } = &case {
                            let mut twice = plan.clone();
                            twice.double_exec = true;
                            let c2 = Case::Plain { plan: twice };
                            if let Some((vs, t)) = minimise::fresh_eval(prop, &c2) {
                                if same(&vs) {
                                    start_case = c2;
                                    traces = t;
                                    confirmed = true;
                                }
                            }
                        }
                    }
                    let (min_case, min_v) = if confirmed {
                        minimise::minimise(prop, &start_case, &target, &traces)
                    } else {
                        (case.clone(), target.clone())
                    };
                    let mut v = min_v;
                    v.features = findings::features(&min_case, &v);
                    rep.violations.push(FoundViolation {
                        seed,
                        index: i,
                        violation: v,
                        minimised_ops: min_case.plan().n_ops(),
                        case: Some(min_case),
                        original_ops,
                        confirmed,
                    });
                } else if must {
                    rep.untriaged += 1;
                } else {
                    rep.known_unminimised += 1;
                }
            }
        }
        i += stride;
    }
    rep
}

fn merge(into: &mut WorkerReport, r: WorkerReport) {
    into.seeds += r.seeds;
    into.cases += r.cases;
    into.execs += r.execs;
    into.steps += r.steps;
    into.capped += r.capped;
    into.nontrivial += r.nontrivial;
    into.signatures.extend(r.signatures);
    into.interleavings.extend(r.interleavings);
    into.lock_orders.extend(r.lock_orders);
    into.trees.extend(r.trees);
    into.shapes.extend(r.shapes);
    for (k, v) in r.probes {
        *into.probes.entry(k).or_insert(0) += v;
    }
    for (k, v) in r.fired {
        *into.fired.entry(k).or_insert(0) += v;
    }
    for (k, v) in r.enabled {
        *into.enabled.entry(k).or_insert(0) += v;
    }
    for (k, v) in r.profiles {
        *into.profiles.entry(k).or_insert(0) += v;
    }
    for (k, v) in r.foreign {
        *into.foreign.entry(k).or_insert(0) += v;
    }
    into.violations.extend(r.violations);
    into.violations_total += r.violations_total;
    into.untriaged += r.untriaged;
    into.known_unminimised += r.known_unminimised;
    for s in r.samples {
        if into.samples.len() < 5 {
            into.samples.push(s);
        }
    }
    into.log_hashes.extend(r.log_hashes);
    into.harness_errors.extend(r.harness_errors);
}

fn spawn_workers(prop: &str, seed: u64, from: u64, to: u64, workers: u64, budget: usize, known_path: &str, tier: &str) -> Result<WorkerReport, String> {
    let exe = std::env::current_exe().map_err(|e| e.to_string())?;
    let mut children = vec![];
    for w in 0..workers {
        let child = Command::new(&exe)
            .args([
                "worker",
                prop,
                "--seed",
                &seed.to_string(),
                "--from",
                &from.to_string(),
                "--to",
                &to.to_string(),
                "--stride",
                &workers.to_string(),
                "--offset",
                &w.to_string(),
                "--budget",
                &budget.to_string(),
                "--known",
                known_path,
                "--tier",
                tier,
            ])
            .stdout(Stdio::piped())
            .stderr(Stdio::inherit())
            .spawn()
            .map_err(|e| format!("cannot spawn worker: {e}"))?;
        children.push(child);
    }
    let mut total = WorkerReport::default();
    for mut c in children {
        let mut s = String::new();
        c.stdout.take().unwrap().read_to_string(&mut s).map_err(|e| e.to_string())?;
        let st = c.wait().map_err(|e| e.to_string())?;
        if !st.success() {
            return Err(format!("worker exited with {st}"));
        }
        let r: WorkerReport = serde_json::from_str(&s).map_err(|e| format!("bad worker report: {e}"))?;
        merge(&mut total, r);
    }
    Ok(total)
}

fn default_runs(prop: &str, tier: &str) -> u64 {
    let quick = match prop {
        "C05" => 12_000,
        "C06" => 40_000,
        "C13" => 10_000,
        "C17" => 3_000,
        "C11" => 20_000,
        "C03" => 20_000,
        "C04" => 20_000,
        "C08" => 20_000,
        _ => 1_000,
    };
    match tier {
        "thorough" => quick * 12,
        _ => quick,
    }
}

fn rule(prop: &str) -> &'static str {
    match prop {
        "C05" => "one case = one seeded plan (1-4 simulated threads, 1-5 export calls each over types sharing files, seeded chooser, legal short reads/writes and EINTR). Non-trivial = the merge path (read-merge-write of an existing shared file) was taken at least once; distinct = distinct (history shape, order in which threads were granted the registry lock, visit seed)",
        "C06" => "one case = one seeded single-threaded history of 1-8 calls over {export, export_all, export_all_to(spelling)} in 1-2 simulated processes. Non-trivial = a shared file was merged into and at least two entry points or two directory spellings were used; distinct = distinct history shape (sequence of entry point, type, file)",
        "C13" => "one case = one simulated `cargo test`: a queue of export_all calls popped by 1-6 workers under a seeded chooser, with per-type visit permutations, optionally a second process. Non-trivial = more than one worker or a non-identity visit order was applied; distinct = distinct (queue shape, lock grant order, visit seed)",
        "C17" => "one case = one (history, step, obstacle kind, path) combination, enumerated exhaustively within each seeded history, plus the fault-free history itself (non-exportable / above-root calls). Non-trivial = the obstacle actually made ts-rs return an error; distinct = distinct (history shape, step, kind, path)",
        "C11" => "one case = one seeded export_all / export_all_to history (1-2 threads). Non-trivial = at least two files were written; distinct = distinct (history shape, final tree)",
        "C03" | "C08" => "one case = one seeded export_all / export_all_to history over a drawn layout. Non-trivial = at least one import statement was emitted and checked; distinct = distinct (history shape, final tree)",
        "C04" => "one case = one seeded export history; every file is parsed at every lock release, after every call and at the end. Non-trivial = at least one file written; distinct = distinct (history shape, final tree)",
        _ => "",
    }
}

fn level(prop: &str) -> &'static str {
    if prop == "C17" {
        "fault_enumeration"
    } else {
        "exploration"
    }
}

fn cmd_run(args: &[String]) -> i32 {
    let prop = args[0].as_str();
    if !PROPS.contains(&prop) {
        eprintln!("unknown property {prop}");
        return 2;
    }
    let tier = arg(args, "--tier").unwrap_or("quick").to_string();
    let seed: u64 = std::env::var("VERIF_SEED").ok().and_then(|s| s.parse().ok()).unwrap_or(1);
    let runs: u64 = arg(args, "--runs").and_then(|s| s.parse().ok()).unwrap_or_else(|| default_runs(prop, &tier));
    let workers: u64 = arg(args, "--workers").and_then(|s| s.parse().ok()).unwrap_or(16);
    let evidence = arg(args, "--evidence").map(String::from);
    let config = arg(args, "--config").unwrap_or("default").to_string();
    let replay_dir = arg(args, "--replays").unwrap_or("/verif/replays").to_string();
    let known_path = arg(args, "--known").unwrap_or("/verif/known_findings.json").to_string();
    let known = findings::load(&known_path);
    let t0 = Instant::now();
    println!("VERIF_SEED={seed} property={prop} tier={tier} config={config} runs={runs} workers={workers}");
    let rep = match spawn_workers(prop, seed, 0, runs, workers, 6, &known_path, &tier) {
        Ok(r) => r,
        Err(e) => {
            eprintln!("HARNESS ERROR: {e}");
            return 2;
        }
    };
    let wall = t0.elapsed().as_secs_f64();
    if !rep.harness_errors.is_empty() {
        for h in &rep.harness_errors {
            eprintln!("HARNESS ERROR: {h}");
        }
        return 2;
    }
    // triage violations against the known-findings file
    let mut unknown = 0u64;
    let mut known_hits: BTreeMap<String, u64> = BTreeMap::new();
    let mut lines = vec![];
    let _ = std::fs::create_dir_all(&replay_dir);
    for (k, fv) in rep.violations.iter().enumerate() {
        let v = &fv.violation;
        match findings::matching(&known, prop, v) {
            Some(k) => {
                *known_hits.entry(k.id.clone()).or_insert(0) += 1;
            }
            None => {
                unknown += 1;
                let path = format!("{replay_dir}/{prop}-{}-{}-{k}.json", config, fv.seed);
                let body = json!({
                    "property": prop,
                    "config": config,
                    "seed": fv.seed,
                    "verif_seed": seed,
                    "index": fv.index,
                    "oracle": v.oracle,
                    "tags": v.tags,
                    "features": v.features,
                    "detail": v.detail,
                    "file": v.file,
                    "confirmed_by_reexecution": fv.confirmed,
                    "ops_before_minimisation": fv.original_ops,
                    "ops_after_minimisation": fv.minimised_ops,
                    "case": fv.case,
                });
                if let Err(e) = std::fs::write(&path, serde_json::to_string_pretty(&body).unwrap()) {
                    eprintln!("HARNESS ERROR: cannot write {path}: {e}");
                    return 2;
                }
                lines.push(format!("VIOLATION property={prop} replay={path}"));
                println!("--- violation (seed {}, oracle {}, features {:?}) ---\n{}", fv.seed, v.oracle, v.features, v.detail.chars().take(1500).collect::<String>());
            }
        }
    }
    // violating runs that match no known finding but exceeded the minimisation cap
    if rep.untriaged > 0 {
        unknown += rep.untriaged;
        println!("note: {} further violating runs match no known finding and were not minimised (cap)", rep.untriaged);
    }
    let untriaged = rep.known_unminimised;
    for (id, n) in &known_hits {
        let k = known.iter().find(|k| &k.id == id).unwrap();
        println!("KNOWN-FINDING: property={prop} {} ({} minimised occurrences this run)", k.what, n);
    }
    if untriaged > 0 && unknown == 0 {
        println!("note: {untriaged} further violating runs matched known findings on the unminimised case (every violation of each such run was matched) and were not minimised");
    }
    for l in &lines {
        println!("{l}");
    }
    let mut probes = serde_json::Map::new();
    for (k, v) in &rep.probes {
        probes.insert(k.clone(), json!(v));
    }
    let starved: Vec<&str> = findings::expected_probes(prop)
        .iter()
        .copied()
        .filter(|p| rep.probes.get(*p).copied().unwrap_or(0) == 0 && rep.fired.get(*p).copied().unwrap_or(0) == 0)
        .collect();
    if let Some(path) = evidence {
        let ev = json!({
            "property_id": prop,
            "tier": tier,
            "seed": seed,
            "level": level(prop),
            "wall_s": wall,
            "violations": unknown,
            "coverage": {
                "evaluations": rep.cases,
                "distinct_nontrivial": rep.signatures.len(),
                "rule": rule(prop),
                "samples": rep.samples,
                "configuration": config,
                "seeds_expanded": rep.seeds,
                "seed_range": format!("run index 0..{runs}, seed_i = mix(VERIF_SEED={seed}, fnv(\"{prop}\"), i)"),
                "simulated_executions": rep.execs,
                "executions_per_hour": if wall > 0.0 { (rep.execs as f64 / wall * 3600.0) as u64 } else { 0 },
                "seeds_per_hour": if wall > 0.0 { (rep.seeds as f64 / wall * 3600.0) as u64 } else { 0 },
                "logical_steps": rep.steps,
                "simulated_time": "none: ts-rs has no clock, timer or sleep; logical steps (scheduling points + seam calls) are reported instead",
                "runs_discarded_at_step_cap": rep.capped,
                "nontrivial_cases": rep.nontrivial,
                "distinct_interleavings": rep.interleavings.len(),
                "distinct_lock_grant_orders": rep.lock_orders.len(),
                "distinct_final_trees": rep.trees.len(),
                "distinct_import_shapes": rep.shapes.iter().collect::<Vec<_>>(),
                "fault_kinds_enabled_in_cases": rep.enabled,
                "fault_kinds_fired": rep.fired,
                "probes": probes,
                "probe_starved": starved,
                "profiles": rep.profiles,
                "violating_runs_total": rep.violations_total,
                "violating_runs_minimised": rep.violations.len(),
                "violating_runs_matched_known_unminimised": rep.known_unminimised,
                "known_findings_hit": known_hits,
                "foreign_violations": rep.foreign,
                "real_code": ["ts-rs/src/export.rs (export_to, export_and_merge, merge, generate_imports, import_path, recursive_export)", "ts-rs/src/export/path.rs", "TS::export / export_all / export_all_to / export_to_string / default_output_path", "derive macro output for the derived corpus", "std::sync::Mutex + the EXPORT_PATHS registry static", "std::io::Write::write_all / Read::read_to_string retry loops"],
                "stubs": ["file system (SimFs)", "TS_RS_EXPORT_DIR and current_dir", "visit order of derived visit_dependencies (run-time permutation of the macro's sorted entries)", "create_dir_all (transcription of std's algorithm over simulated mkdir/is_dir)", "Syn<N> hand-written impl TS (table driven)"],
            },
            "assumptions": [
                "SimFs answers the calls ts-rs makes as Linux would (component-wise resolution, ENOENT/ENOTDIR/EEXIST/EISDIR); no symlinks, permissions or hard links",
                "the transcription of std::fs::create_dir_all in ts-rs/src/verif_seam.rs matches the std version in use",
                "HashMap/HashSet RandomState inside ts-rs is not controlled; its effect is only looked for by the double-execution diff (C13)",
                "exploration is sampling: a clean batch is evidence, not proof",
                "the hand-written reference lists of the derived corpus (sim/src/corpus.rs MANIFEST) are right"
            ],
        });
        if let Some(dir) = std::path::Path::new(&path).parent() {
            let _ = std::fs::create_dir_all(dir);
        }
        if let Err(e) = std::fs::write(&path, serde_json::to_string_pretty(&ev).unwrap()) {
            eprintln!("HARNESS ERROR: cannot write evidence {path}: {e}");
            return 2;
        }
    }
    println!(
        "{prop}/{config}: {} seeds, {} cases, {} executions, {} steps, {} nontrivial ({} distinct), {} discarded at step cap, {} violating runs ({} unknown after minimisation), {:.1}s",
        rep.seeds,
        rep.cases,
        rep.execs,
        rep.steps,
        rep.nontrivial,
        rep.signatures.len(),
        rep.capped,
        rep.violations_total,
        unknown,
        wall
    );
    if !starved.is_empty() {
        println!("probe_starved: {starved:?}");
    }
    if unknown > 0 {
        1
    } else {
        0
    }
}

fn cmd_replay(args: &[String]) -> i32 {
    let path = &args[0];
    let text = match std::fs::read_to_string(path) {
        Ok(t) => t,
        Err(e) => {
            eprintln!("HARNESS ERROR: cannot read {path}: {e}");
            return 2;
        }
    };
    let v: serde_json::Value = match serde_json::from_str(&text) {
        Ok(v) => v,
        Err(e) => {
            eprintln!("HARNESS ERROR: bad replay file: {e}");
            return 2;
        }
    };
    let prop = v["property"].as_str().unwrap_or("").to_string();
    let case: Case = match serde_json::from_value(v["case"].clone()) {
        Ok(c) => c,
        Err(e) => {
            eprintln!("HARNESS ERROR: bad case in replay file: {e}");
            return 2;
        }
    };
    if args.iter().any(|a| a == "--tree") {
        // show what the primary execution leaves behind
        let plan = match &case {
            Case::Plain { plan } => plan.clone(),
            Case::Faulted { base, idx, kind, path, .. } => gen::with_obstacle(base, *idx, *kind, path),
            Case::HardIo { base, at } => {
                let mut p = base.clone();
                p.cfg.faults.hard_io_at = Some(*at);
                p
            }
            Case::HardIoSweep { base } => base.clone(),
        };
        let e = exec::execute(&plan, exec::ExecOpts::default());
        for c in &e.calls {
            println!("call phase={} thread={} idx={} {} -> {}", c.phase, c.thread, c.idx, c.op.kind(), c.result.short());
        }
        for (k, v) in &e.final_files {
            println!("===== {k}\n{}", String::from_utf8_lossy(v));
        }
    }
    let mut out = check_case(&prop, &case);
    // a difference between two executions of one plan comes from state the simulator does not
    // control (RandomState inside the code under test): unlike every other replay it recurs
    // with high probability only, so it gets a few attempts
    if out.own.is_empty() {
        let attempts = if case.plan().double_exec { 7 } else { 3 };
        for k in 0..attempts {
            out = check_case(&prop, &case);
            if !out.own.is_empty() {
                println!("note: reproduced on attempt {} only - the violation depends on state the simulator does not control (hash order at run time)", k + 2);
                break;
            }
        }
    }
    let verbose = args.iter().any(|a| a == "-v");
    if verbose {
        for f in &out.foreign {
            println!("(foreign {} {:?}) {}", f.oracle, f.tags, f.detail.lines().next().unwrap_or(""));
        }
    }
    if out.own.is_empty() {
        println!("replay {path}: property {prop} held");
        0
    } else {
        for o in &out.own {
            println!("--- {} {:?} ---\n{}", o.oracle, o.tags, o.detail);
        }
        println!("log_hash={:016x}", out.log_hash);
        println!("VIOLATION property={prop} replay={path}");
        1
    }
}

fn cmd_selftest(args: &[String]) -> i32 {
    match args.first().map(String::as_str) {
        Some("determinism") => {
            let runs: u64 = arg(args, "--runs").and_then(|s| s.parse().ok()).unwrap_or(200);
            let seed: u64 = std::env::var("VERIF_SEED").ok().and_then(|s| s.parse().ok()).unwrap_or(1);
            let tier = arg(args, "--tier").unwrap_or("quick").to_string();
            let mut bad = 0;
            for prop in PROPS {
                // same seeds at two different worker counts, i.e. in different processes and
                // at different positions within a process
                let a = spawn_workers(prop, seed, 0, runs, 1, 0, "/verif/known_findings.json", &tier);
                let b = spawn_workers(prop, seed, 0, runs, 16, 0, "/verif/known_findings.json", &tier);
                let c = spawn_workers(prop, seed, 0, runs, 5, 0, "/verif/known_findings.json", &tier);
                match (a, b, c) {
                    (Ok(a), Ok(b), Ok(c)) => {
                        let m = |r: &WorkerReport| -> BTreeMap<(u64, usize), u64> {
                            let mut count: BTreeMap<u64, usize> = BTreeMap::new();
                            r.log_hashes
                                .iter()
                                .map(|(s, h)| {
                                    let k = count.entry(*s).or_insert(0);
                                    *k += 1;
                                    ((*s, *k), *h)
                                })
                                .collect()
                        };
                        let (ma, mb, mc) = (m(&a), m(&b), m(&c));
                        let diff = ma.iter().filter(|(k, h)| mb.get(k) != Some(h) || mc.get(k) != Some(h)).count();
                        println!("determinism {prop}: {} executions compared across 1/16/5 worker processes, {} differ", ma.len(), diff + ma.len().abs_diff(mb.len()));
                        if diff > 0 || ma.len() != mb.len() || ma.len() != mc.len() {
                            bad += 1;
                        }
                    }
                    (a, b, c) => {
                        eprintln!("HARNESS ERROR: {:?} {:?} {:?}", a.err(), b.err(), c.err());
                        return 2;
                    }
                }
            }
            if bad > 0 {
                eprintln!("HARNESS ERROR: nondeterministic executions");
                2
            } else {
                0
            }
        }
        _ => {
            eprintln!("usage: selftest determinism [--runs N]");
            2
        }
    }
}

fn cmd_dump() -> i32 {
    // declaration text and reported dependencies of the derived corpus under a plain table,
    // for reviewing the hand-written manifest
    let plan = gen::gen_c13(1);
    let mut table = plan.table.clone();
    for i in 0..corpus::DER_DEFS {
        table.der_names[i] = format!("N{i}");
        table.der_paths[i] = format!("d{i}/");
    }
    exec::init_process();
    uni::install_table(std::sync::Arc::new(table));
    for h in 0..corpus::DER_HANDLES {
        let hd = corpus::der_handle(h);
        let m = &corpus::MANIFEST[h];
        if !corpus::usable(h) {
            println!("{:10} cannot be rendered (excluded)", m.label);
            continue;
        }
        if matches!(m.place, corpus::Place::NotExportable) {
            println!("{:10} not exportable: name={}", m.label, (hd.name)());
            continue;
        }
        let deps: Vec<String> = (hd.dependencies)().into_iter().map(|d| d.0).collect();
        println!("{:10} ident={:6} path={:?}\n    decl: {}\n    deps(reported): {:?}\n    manifest imports: {:?}", m.label, (hd.ident)(), (hd.output_path)(), (hd.decl)(), deps, m.import_refs.iter().map(|r| corpus::MANIFEST[*r].label).collect::<Vec<_>>());
    }
    0
}

fn start_watchdog() {
    std::thread::spawn(|| {
        let mut last = 0;
        let mut idle = 0u32;
        loop {
            std::thread::sleep(std::time::Duration::from_secs(5));
            let now = check::PROGRESS.load(std::sync::atomic::Ordering::Relaxed);
            if now == last {
                idle += 1;
            } else {
                idle = 0;
                last = now;
            }
            if idle >= 36 {
                eprintln!("HARNESS ERROR: no simulated case completed for 180 s (simulation stalled: code under test is probably blocking on something the scheduler does not control)");
                std::process::exit(2);
            }
        }
    });
}

fn main() {
    let args: Vec<String> = std::env::args().skip(1).collect();
    if matches!(args.first().map(String::as_str), Some("worker") | Some("replay") | Some("eval")) {
        start_watchdog();
    }
    let code = match args.first().map(String::as_str) {
        Some("run") => cmd_run(&args[1..]),
        Some("worker") => {
            let a = &args[1..];
            let prop = a[0].clone();
            let g = |n: &str| arg(a, n).and_then(|s| s.parse::<u64>().ok()).unwrap_or(0);
            let known = findings::load(arg(a, "--known").unwrap_or("/verif/known_findings.json"));
            gen::set_thorough(arg(a, "--tier") == Some("thorough"));
            let max_unknown = std::env::var("VERIF_MAX_MINIMISE").ok().and_then(|s| s.parse().ok()).unwrap_or(40usize);
            let rep = run_worker(&prop, g("--seed"), g("--from"), g("--to"), g("--stride").max(1), g("--offset"), g("--budget") as usize, max_unknown, &known);
            println!("{}", serde_json::to_string(&rep).unwrap());
            0
        }
        Some("replay") => cmd_replay(&args[1..]),
        Some("eval") => {
            // internal: evaluate one case (JSON on stdin) in this fresh process
            let prop = args.get(1).cloned().unwrap_or_default();
            let mut text = String::new();
            let _ = std::io::stdin().read_to_string(&mut text);
            match serde_json::from_str::<Case>(&text) {
                Ok(case) => {
                    let out = check_case(&prop, &case);
                    println!(
                        "{}",
                        json!({"own": out.own, "traces": out.traces, "capped": out.capped, "harness_error": out.harness_error})
                    );
                    0
                }
                Err(e) => {
                    eprintln!("bad case: {e}");
                    2
                }
            }
        }
        Some("selftest") => cmd_selftest(&args[1..]),
        Some("dump") => cmd_dump(),
        _ => {
            eprintln!("usage: tsrs-sim run|replay|selftest|dump ...");
            2
        }
    };
    std::process::exit(code);
}
