//! Independent parser for the TypeScript module fragment ts-rs emits, written from the TypeScript
//! grammar (not from `export.rs`): comments, `import type { .. } from "..";`,
//! `export type N<P = D, ..> = T;` with T over unions, intersections, object types (optional,
//! quoted, computed and mapped members, embedded JSDoc), tuples, arrays, generics, literals.

use std::collections::BTreeSet;

#[derive(Clone, Debug, PartialEq)]
enum Tok {
    Ident(String),
    Str(String),
    Num(String),
    Punct(char),
    Arrow,
}

#[derive(Clone, Debug)]
struct SpTok {
    tok: Tok,
    /// byte offset of the token
    at: usize,
    /// a comment immediately precedes this token (since the previous token)
    comments_before: Vec<String>,
}

#[derive(Clone, Debug, PartialEq)]
pub struct Import {
    pub names: Vec<String>,
    pub spec: String,
}

#[derive(Clone, Debug, PartialEq)]
pub struct Decl {
    pub name: String,
    pub params: Vec<String>,
    /// type names referenced that are neither bound parameters nor TypeScript built-ins
    pub refs: BTreeSet<String>,
    /// comments directly in front of `export`
    pub docs: Vec<String>,
    /// byte range of the declaration, from `export` to `;` inclusive
    pub span: (usize, usize),
}

#[derive(Clone, Debug, PartialEq)]
pub struct Module {
    pub imports: Vec<Import>,
    pub decls: Vec<Decl>,
    /// true iff every import precedes every declaration
    pub imports_first: bool,
}

pub const BUILTINS: &[&str] = &[
    "string", "number", "boolean", "bigint", "null", "undefined", "never", "any", "unknown",
    "void", "object", "symbol", "true", "false", "Array", "Record", "Partial", "Required",
    "Readonly", "ReadonlyArray", "Pick", "Omit", "Exclude", "Extract", "NonNullable", "Map",
    "Set", "Date", "Promise", "Uint8Array",
];

fn lex(src: &str) -> Result<Vec<SpTok>, String> {
    let b = src.as_bytes();
    let mut i = 0;
    let mut out = vec![];
    let mut comments: Vec<String> = vec![];
    while i < b.len() {
        let c = b[i] as char;
        if c.is_ascii_whitespace() {
            i += 1;
            continue;
        }
        if src[i..].starts_with("//") {
            let end = src[i..].find('\n').map(|e| i + e).unwrap_or(b.len());
            comments.push(src[i..end].to_string());
            i = end;
            continue;
        }
        if src[i..].starts_with("/*") {
            let end = src[i + 2..]
                .find("*/")
                .map(|e| i + 2 + e + 2)
                .ok_or_else(|| format!("unterminated comment at {i}"))?;
            comments.push(src[i..end].to_string());
            i = end;
            continue;
        }
        let at = i;
        let tok = if c == '"' || c == '\'' || c == '`' {
            let mut j = i + 1;
            let mut s = String::new();
            loop {
                if j >= b.len() {
                    return Err(format!("unterminated string at {i}"));
                }
                let d = b[j] as char;
                if d == '\\' {
                    if j + 1 >= b.len() {
                        return Err(format!("unterminated escape at {j}"));
                    }
                    let ch = src[j + 1..].chars().next().unwrap();
                    s.push(ch);
                    j += 1 + ch.len_utf8();
                    continue;
                }
                if d == c {
                    break;
                }
                if d == '\n' && c != '`' {
                    return Err(format!("newline in string at {j}"));
                }
                let ch = src[j..].chars().next().unwrap();
                s.push(ch);
                j += ch.len_utf8();
            }
            i = j + 1;
            Tok::Str(s)
        } else if c.is_ascii_digit() {
            let mut j = i;
            while j < b.len() && ((b[j] as char).is_ascii_alphanumeric() || b[j] == b'.' || b[j] == b'_') {
                j += 1;
            }
            let s = src[i..j].to_string();
            i = j;
            Tok::Num(s)
        } else if c.is_alphabetic() || c == '_' || c == '$' || !c.is_ascii() {
            let mut j = i;
            while j < b.len() {
                let ch = src[j..].chars().next().unwrap();
                if ch.is_alphanumeric() || ch == '_' || ch == '$' {
                    j += ch.len_utf8();
                } else {
                    break;
                }
            }
            if j == i {
                return Err(format!("unexpected character at {i}"));
            }
            let s = src[i..j].to_string();
            i = j;
            Tok::Ident(s)
        } else if src[i..].starts_with("=>") {
            i += 2;
            Tok::Arrow
        } else if "{}[]()<>,;:=|&?.-+*!".contains(c) {
            i += 1;
            Tok::Punct(c)
        } else {
            return Err(format!("unexpected character {c:?} at {i}"));
        };
        out.push(SpTok {
            tok,
            at,
            comments_before: std::mem::take(&mut comments),
        });
    }
    if !comments.is_empty() {
        // trailing comments belong to nothing; keep them visible to the caller as an error
        // only if they look like a swallowed declaration (checked by the caller on raw text)
    }
    Ok(out)
}

struct P<'a> {
    toks: &'a [SpTok],
    pos: usize,
    src_len: usize,
}

impl<'a> P<'a> {
    fn peek(&self) -> Option<&Tok> {
        self.toks.get(self.pos).map(|t| &t.tok)
    }
    fn peek_at(&self, k: usize) -> Option<&Tok> {
        self.toks.get(self.pos + k).map(|t| &t.tok)
    }
    fn at(&self) -> usize {
        self.toks.get(self.pos).map(|t| t.at).unwrap_or(self.src_len)
    }
    fn next(&mut self) -> Option<Tok> {
        let t = self.toks.get(self.pos).map(|t| t.tok.clone());
        self.pos += 1;
        t
    }
    fn err<T>(&self, what: &str) -> Result<T, String> {
        Err(format!(
            "{what} at byte {} (found {:?})",
            self.at(),
            self.peek()
        ))
    }
    fn is_punct(&self, c: char) -> bool {
        self.peek() == Some(&Tok::Punct(c))
    }
    fn is_ident(&self, s: &str) -> bool {
        matches!(self.peek(), Some(Tok::Ident(i)) if i == s)
    }
    fn eat_punct(&mut self, c: char) -> bool {
        if self.is_punct(c) {
            self.pos += 1;
            true
        } else {
            false
        }
    }
    fn expect_punct(&mut self, c: char) -> Result<(), String> {
        if self.eat_punct(c) {
            Ok(())
        } else {
            self.err(&format!("expected `{c}`"))
        }
    }
    fn expect_ident(&mut self) -> Result<String, String> {
        match self.next() {
            Some(Tok::Ident(s)) => Ok(s),
            _ => {
                self.pos -= 1;
                self.err("expected identifier")
            }
        }
    }
    fn expect_kw(&mut self, kw: &str) -> Result<(), String> {
        if self.is_ident(kw) {
            self.pos += 1;
            Ok(())
        } else {
            self.err(&format!("expected `{kw}`"))
        }
    }

    fn ty(&mut self, bound: &mut Vec<String>, refs: &mut BTreeSet<String>) -> Result<(), String> {
        // union / intersection with optional leading operator
        let _ = self.eat_punct('|') || self.eat_punct('&');
        loop {
            self.postfix(bound, refs)?;
            if self.eat_punct('|') || self.eat_punct('&') {
                continue;
            }
            break;
        }
        Ok(())
    }

    fn postfix(&mut self, bound: &mut Vec<String>, refs: &mut BTreeSet<String>) -> Result<(), String> {
        self.primary(bound, refs)?;
        while self.is_punct('[') {
            self.pos += 1;
            if !self.is_punct(']') {
                self.ty(bound, refs)?;
            }
            self.expect_punct(']')?;
        }
        Ok(())
    }

    fn type_args(&mut self, bound: &mut Vec<String>, refs: &mut BTreeSet<String>) -> Result<(), String> {
        if self.eat_punct('<') {
            loop {
                self.ty(bound, refs)?;
                if self.eat_punct(',') {
                    if self.is_punct('>') {
                        break;
                    }
                    continue;
                }
                break;
            }
            self.expect_punct('>')?;
        }
        Ok(())
    }

    fn primary(&mut self, bound: &mut Vec<String>, refs: &mut BTreeSet<String>) -> Result<(), String> {
        match self.peek().cloned() {
            Some(Tok::Punct('(')) => {
                self.pos += 1;
                self.ty(bound, refs)?;
                self.expect_punct(')')
            }
            Some(Tok::Punct('{')) => self.object(bound, refs),
            Some(Tok::Punct('[')) => {
                self.pos += 1;
                while !self.is_punct(']') {
                    // optional tuple element label: `name: T` / `name?: T`
                    if matches!(self.peek(), Some(Tok::Ident(_)))
                        && (self.peek_at(1) == Some(&Tok::Punct(':'))
                            || (self.peek_at(1) == Some(&Tok::Punct('?'))
                                && self.peek_at(2) == Some(&Tok::Punct(':'))))
                    {
                        self.pos += 1;
                        self.eat_punct('?');
                        self.pos += 1;
                    }
                    self.ty(bound, refs)?;
                    self.eat_punct('?');
                    if !self.eat_punct(',') {
                        break;
                    }
                }
                self.expect_punct(']')
            }
            Some(Tok::Str(_)) | Some(Tok::Num(_)) => {
                self.pos += 1;
                Ok(())
            }
            Some(Tok::Punct('-')) => {
                self.pos += 1;
                match self.next() {
                    Some(Tok::Num(_)) => Ok(()),
                    _ => {
                        self.pos -= 1;
                        self.err("expected number after `-`")
                    }
                }
            }
            Some(Tok::Ident(id)) => {
                self.pos += 1;
                if id == "keyof" || id == "readonly" || id == "typeof" {
                    return self.postfix(bound, refs);
                }
                // qualified name a.b.c: only the head is a reference
                let mut qualified = false;
                while self.is_punct('.') {
                    self.pos += 1;
                    self.expect_ident()?;
                    qualified = true;
                }
                if !qualified && !BUILTINS.contains(&id.as_str()) && !bound.contains(&id) {
                    refs.insert(id);
                }
                self.type_args(bound, refs)
            }
            _ => self.err("expected a type"),
        }
    }

    fn object(&mut self, bound: &mut Vec<String>, refs: &mut BTreeSet<String>) -> Result<(), String> {
        self.expect_punct('{')?;
        loop {
            if self.eat_punct('}') {
                return Ok(());
            }
            let mut pushed = false;
            // member name
            match self.peek().cloned() {
                Some(Tok::Ident(id)) if id == "readonly" && !matches!(self.peek_at(1), Some(Tok::Punct(':' | '?'))) => {
                    self.pos += 1;
                    continue;
                }
                Some(Tok::Ident(_)) | Some(Tok::Str(_)) | Some(Tok::Num(_)) => {
                    self.pos += 1;
                }
                Some(Tok::Punct('[')) => {
                    self.pos += 1;
                    // mapped `[K in T]`, index signature `[k: T]`, or computed `["lit"]`
                    match (self.peek().cloned(), self.peek_at(1).cloned()) {
                        (Some(Tok::Ident(k)), Some(Tok::Ident(kw))) if kw == "in" => {
                            self.pos += 2;
                            self.ty(bound, refs)?;
                            bound.push(k);
                            pushed = true;
                        }
                        (Some(Tok::Ident(_)), Some(Tok::Punct(':'))) => {
                            self.pos += 2;
                            self.ty(bound, refs)?;
                        }
                        _ => self.ty(bound, refs)?,
                    }
                    self.expect_punct(']')?;
                }
                _ => return self.err("expected a member name"),
            }
            self.eat_punct('?');
            self.expect_punct(':')?;
            let r = self.ty(bound, refs);
            if pushed {
                bound.pop();
            }
            r?;
            if self.eat_punct(',') || self.eat_punct(';') {
                continue;
            }
            // a member may also be terminated by a line break; accept a following name or `}`
        }
    }
}

/// Parse a whole module.
pub fn parse_module(src: &str) -> Result<Module, String> {
    let toks = lex(src)?;
    let mut p = P {
        toks: &toks,
        pos: 0,
        src_len: src.len(),
    };
    let mut imports = vec![];
    let mut decls: Vec<Decl> = vec![];
    let mut imports_first = true;
    while p.peek().is_some() {
        if p.is_ident("import") {
            if !decls.is_empty() {
                imports_first = false;
            }
            p.pos += 1;
            p.expect_kw("type")?;
            p.expect_punct('{')?;
            let mut names = vec![];
            while !p.is_punct('}') {
                names.push(p.expect_ident()?);
                if !p.eat_punct(',') {
                    break;
                }
            }
            p.expect_punct('}')?;
            p.expect_kw("from")?;
            let spec = match p.next() {
                Some(Tok::Str(s)) => s,
                _ => {
                    p.pos -= 1;
                    return p.err("expected module specifier");
                }
            };
            p.expect_punct(';')?;
            imports.push(Import { names, spec });
        } else if p.is_ident("export") {
            let docs = toks[p.pos].comments_before.clone();
            let start = p.at();
            p.pos += 1;
            p.expect_kw("type")?;
            let name = p.expect_ident()?;
            let mut bound: Vec<String> = vec![];
            let mut refs = BTreeSet::new();
            let mut params = vec![];
            if p.eat_punct('<') {
                // parameters are in scope for their own defaults and constraints
                let save = p.pos;
                loop {
                    let id = p.expect_ident()?;
                    bound.push(id.clone());
                    params.push(id);
                    // skip to the next top-level `,` or the closing `>`
                    let mut depth = 0i32;
                    loop {
                        match p.peek() {
                            Some(Tok::Punct('<' | '{' | '[' | '(')) => depth += 1,
                            Some(Tok::Punct('>')) if depth == 0 => break,
                            Some(Tok::Punct('>' | '}' | ']' | ')')) => depth -= 1,
                            Some(Tok::Punct(',')) if depth == 0 => break,
                            None => return p.err("unterminated type parameter list"),
                            _ => {}
                        }
                        p.pos += 1;
                    }
                    if p.eat_punct(',') {
                        if p.is_punct('>') {
                            break;
                        }
                        continue;
                    }
                    break;
                }
                // second pass: parse constraints and defaults with all parameters bound
                p.pos = save;
                loop {
                    p.expect_ident()?;
                    if p.is_ident("extends") {
                        p.pos += 1;
                        p.ty(&mut bound, &mut refs)?;
                    }
                    if p.eat_punct('=') {
                        p.ty(&mut bound, &mut refs)?;
                    }
                    if p.eat_punct(',') {
                        if p.is_punct('>') {
                            break;
                        }
                        continue;
                    }
                    break;
                }
                p.expect_punct('>')?;
            }
            p.expect_punct('=')?;
            p.ty(&mut bound, &mut refs)?;
            p.expect_punct(';')?;
            let end = toks[p.pos - 1].at + 1;
            decls.push(Decl {
                name,
                params,
                refs,
                docs,
                span: (start, end),
            });
        } else {
            return p.err("expected `import type` or `export type`");
        }
    }
    Ok(Module {
        imports,
        decls,
        imports_first,
    })
}

/// Parse a single type expression; returns the free references.
pub fn parse_type(src: &str) -> Result<BTreeSet<String>, String> {
    let toks = lex(src)?;
    let mut p = P {
        toks: &toks,
        pos: 0,
        src_len: src.len(),
    };
    let mut refs = BTreeSet::new();
    p.ty(&mut vec![], &mut refs)?;
    if p.peek().is_some() {
        return p.err("trailing input after type");
    }
    Ok(refs)
}

#[cfg(test)]
mod tests {
    use super::*;

    #[test]
    fn parses_fragment() {
        let src = "// note\nimport type { A, B } from \"./x\";\n\n/**\n * doc export type Fake = 1;\n */\nexport type T<K = A> = { a: A, \"b-c\"?: Array<B> | null, d: { [key in string]?: K }, e: [number, C], };\n";
        let m = parse_module(src).unwrap();
        assert_eq!(m.imports.len(), 1);
        assert_eq!(m.decls.len(), 1);
        assert_eq!(m.decls[0].name, "T");
        let refs: Vec<&str> = m.decls[0].refs.iter().map(String::as_str).collect();
        assert_eq!(refs, ["A", "B", "C"]);
        assert_eq!(m.decls[0].docs.len(), 1);
        assert!(parse_module("export type X = { a: };").is_err());
        let f = "export type P<\n  T = A,\n> = {\n  t: T;\n  k: B;\n};\nimport type {\n  A,\n  B,\n} from \"./x\";\n";
        let m = parse_module(f).unwrap();
        assert_eq!(m.decls[0].params, ["T"]);
        assert!(!m.imports_first);
        assert!(parse_module("export type X = 1;\n/** open").is_err());
    }
}
