//! A plan is one fully explicit simulated execution: configuration, universe, per-thread
//! operation lists, obstacles, fault parameters, visit orders and schedule. Seeds are expanded
//! into plans by `gen.rs`; the executor, the minimiser and replay all work on plans only.

use serde::{Deserialize, Serialize};

use crate::{
    sched::Chooser,
    uni::{Table, Ty},
};

#[derive(Clone, Debug, Serialize, Deserialize, PartialEq)]
pub enum Op {
    Export { ty: Ty },
    ExportAll { ty: Ty },
    ExportAllTo { ty: Ty, dir: String },
    ToString { ty: Ty },
    /// `output_path()` and `default_output_path()`, no side effects
    Paths { ty: Ty },
}

impl Op {
    pub fn ty(&self) -> Ty {
        match self {
            Op::Export { ty }
            | Op::ExportAll { ty }
            | Op::ExportAllTo { ty, .. }
            | Op::ToString { ty }
            | Op::Paths { ty } => *ty,
        }
    }
    pub fn kind(&self) -> &'static str {
        match self {
            Op::Export { .. } => "export",
            Op::ExportAll { .. } => "export_all",
            Op::ExportAllTo { .. } => "export_all_to",
            Op::ToString { .. } => "export_to_string",
            Op::Paths { .. } => "paths",
        }
    }
}

#[derive(Clone, Debug, Serialize, Deserialize, PartialEq)]
pub struct InitFile {
    /// absolute normalised key
    pub path: String,
    pub bytes: String,
    /// bystander files must never change
    pub bystander: bool,
}

#[derive(Clone, Debug, Default, Serialize, Deserialize, PartialEq)]
pub struct Faults {
    pub seed: u64,
    /// legal perturbations, percent per call
    pub short_write: u32,
    pub short_read: u32,
    pub eintr: u32,
    /// observational hard error: fail the n-th data-path call (open/write/fsync/mkdir) of the run
    pub hard_io_at: Option<u64>,
}

#[derive(Clone, Debug, Serialize, Deserialize, PartialEq)]
pub struct Cfg {
    pub cwd: String,
    pub env_dir: Option<String>,
    pub initial: Vec<InitFile>,
    pub faults: Faults,
}

#[derive(Clone, Copy, Debug, Serialize, Deserialize, PartialEq, Eq)]
pub enum ObKind {
    /// a directory sits at the path of an output file
    TargetIsDir,
    /// a regular file sits at a directory component
    ParentIsFile,
}

#[derive(Clone, Debug, Serialize, Deserialize, PartialEq)]
pub struct Obstacle {
    pub kind: ObKind,
    /// absolute normalised key where the obstacle is placed
    pub path: String,
    pub thread: usize,
    /// placed right before this call of `thread` starts
    pub place_before: usize,
    /// removed (prior state restored exactly) right before this call of `thread` starts
    pub remove_before: usize,
}

#[derive(Clone, Debug, Serialize, Deserialize, PartialEq)]
pub struct Phase {
    /// a fresh simulated process: the registry is reset, the tree is kept
    pub fresh_process: bool,
    pub threads: Vec<Vec<Op>>,
    pub chooser: Chooser,
    pub obstacles: Vec<Obstacle>,
    /// after all threads finished, repeat every call that returned an error (sequentially)
    pub retry_failed: bool,
    /// work-queue mode (simulated `cargo test`): threads pop from `threads[0]` instead of
    /// owning a list; the number of workers is `workers`
    pub queue_workers: usize,
}

#[derive(Clone, Debug, Serialize, Deserialize, PartialEq)]
pub struct Plan {
    pub property: String,
    pub seed: u64,
    pub profile: String,
    pub cfg: Cfg,
    pub table: Table,
    /// 0 = identity visit order everywhere
    pub visit_seed: u64,
    pub phases: Vec<Phase>,
    pub step_cap: u64,
    /// run the plan twice with identical choices and diff (C13 residue check)
    pub double_exec: bool,
}

impl Plan {
    pub fn all_ops(&self) -> impl Iterator<Item = &Op> {
        self.phases
            .iter()
            .flat_map(|p| p.threads.iter().flat_map(|t| t.iter()))
    }

    pub fn types(&self) -> Vec<Ty> {
        let mut v: Vec<Ty> = self.all_ops().map(|o| o.ty()).collect();
        v.sort_unstable();
        v.dedup();
        v
    }

    pub fn n_ops(&self) -> usize {
        self.all_ops().count()
    }
}
