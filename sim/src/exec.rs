//! Executes a plan against the real ts-rs export runtime: installs the universe table, the
//! simulated world (file system, environment, faults) and the scheduler behind ts-rs's seam,
//! runs the phases, records results, operation log, in-run invariant violations and statistics.

use std::{
    cell::{Cell, RefCell},
    collections::{BTreeMap, BTreeSet},
    io,
    panic::{catch_unwind, AssertUnwindSafe},
    path::{Path, PathBuf},
    sync::{Arc, Mutex, Once, RwLock},
};

use serde::{Deserialize, Serialize};
use ts_rs::{
    verif_seam::{self, Backend, OpenFlags},
    ExportError,
};

use crate::{
    model::{Model, NOTE},
    plan::{ObKind, Op, Phase, Plan},
    rng::{fnv, mix, Rng},
    sched::{PKind, Sched},
    simfs::{self, errno, Node, SimFs},
    tsparse,
    uni::{handle_of, install_table, Ty},
};

pub const NO_TID: usize = usize::MAX;

thread_local! {
    static TID: Cell<usize> = const { Cell::new(NO_TID) };
    /// (phase, list index, op index) of the API call this thread is executing
    static CALL: Cell<(usize, usize, usize)> = const { Cell::new((0, 0, usize::MAX)) };
    static PANIC_MSG: RefCell<Option<String>> = const { RefCell::new(None) };
}

#[derive(Clone, Debug, Serialize, Deserialize, PartialEq)]
pub enum CallResult {
    Ok,
    /// kind: "CannotBeExported" | "Io:<ErrorKind>" | "Fmt" | "Formatting" | ...
    Err { kind: String, msg: String },
    Panic { msg: String },
    /// result of export_to_string
    Text { text: String },
}

impl CallResult {
    pub fn is_ok(&self) -> bool {
        matches!(self, CallResult::Ok | CallResult::Text { .. })
    }
    pub fn is_err(&self) -> bool {
        matches!(self, CallResult::Err { .. })
    }
    pub fn is_panic(&self) -> bool {
        matches!(self, CallResult::Panic { .. })
    }
    pub fn short(&self) -> String {
        match self {
            CallResult::Ok => "Ok".into(),
            CallResult::Err { kind, .. } => format!("Err({kind})"),
            CallResult::Panic { msg } => format!("PANIC({})", msg.chars().take(80).collect::<String>()),
            CallResult::Text { .. } => "Ok(text)".into(),
        }
    }
}

#[derive(Clone, Copy, Debug, PartialEq, Eq, Serialize, Deserialize)]
pub enum FsOp {
    Mkdir,
    IsDir,
    OpenRw,
    OpenTrunc,
    OpenOther,
    Fstat,
    Read,
    Write,
    Seek,
    Fsync,
    Close,
    Rename,
    Unlink,
    Stat,
    SetLen,
    Lock,
    Unlock,
    Env,
    Cwd,
    Visit,
    CallStart,
    CallEnd,
}

#[derive(Clone, Debug, Serialize, Deserialize)]
pub struct LogEntry {
    pub seq: u64,
    pub phase: usize,
    pub thread: usize,
    /// index of the API call within its list (`usize::MAX` outside calls)
    pub call: usize,
    pub list: usize,
    pub op: FsOp,
    /// resolved absolute key where known, else the raw path
    pub key: String,
    /// byte count / offset / length, op dependent
    pub n: i64,
    /// 0 on success, else errno
    pub errno: i32,
}

#[derive(Clone, Debug, Default, Serialize, Deserialize, PartialEq)]
pub struct Violation {
    pub oracle: String,
    pub tags: Vec<String>,
    pub detail: String,
    pub file: Option<String>,
    #[serde(default)]
    pub features: Vec<String>,
}

impl Violation {
    pub fn new(oracle: &str, tags: &[&str], file: Option<&str>, detail: String) -> Self {
        Violation {
            oracle: oracle.to_string(),
            tags: tags.iter().map(|s| s.to_string()).collect(),
            detail,
            file: file.map(String::from),
            features: vec![],
        }
    }
}

#[derive(Clone, Debug, Default)]
pub struct PhaseStats {
    pub trace: Vec<u8>,
    pub steps: u64,
    pub lock_order: Vec<u8>,
    pub switches: u64,
    pub capped: bool,
    pub deadlock: bool,
    pub threads: usize,
}

#[derive(Clone, Debug)]
pub struct CallRecord {
    pub phase: usize,
    pub list: usize,
    pub idx: usize,
    pub thread: usize,
    pub op: Op,
    pub result: CallResult,
    pub retry: bool,
    /// global sequence numbers delimiting the call in the log
    pub seq_start: u64,
    pub seq_end: u64,
    /// tree after the call (single-threaded phases with snapshots enabled)
    pub snapshot: Option<BTreeMap<String, Vec<u8>>>,
}

#[derive(Clone, Debug, Default)]
pub struct Exec {
    pub calls: Vec<CallRecord>,
    pub log: Vec<LogEntry>,
    pub final_files: BTreeMap<String, Vec<u8>>,
    pub final_dirs: BTreeSet<String>,
    pub initial_files: BTreeMap<String, Vec<u8>>,
    pub violations: Vec<Violation>,
    pub phases: Vec<PhaseStats>,
    pub probes: BTreeMap<String, u64>,
    pub fired: BTreeMap<String, u64>,
    pub registry: Vec<Option<BTreeMap<String, BTreeSet<String>>>>,
    pub interleaving_hash: u64,
    /// files written in each phase
    pub written: Vec<BTreeSet<String>>,
    pub harness_error: Option<String>,
}

#[derive(Clone, Copy, Debug, Default)]
pub struct ExecOpts {
    pub snapshots: bool,
    /// skip in-run invariants (observational runs with hard I/O errors)
    pub no_invariants: bool,
    /// in-run invariants compare file bytes with the model's rendering (off under `format`)
    pub no_render: bool,
}

/// What every op of a phase may add: file -> ident -> (type, normalised base)
pub type Cands = BTreeMap<String, BTreeMap<String, (Ty, String)>>;

pub struct World {
    pub fs: SimFs,
    pub log: Vec<LogEntry>,
    seq: u64,
    fault_rng: Rng,
    faults: crate::plan::Faults,
    data_calls: u64,
    pub fired: BTreeMap<String, u64>,
    pub probes: BTreeMap<String, u64>,
    phase: usize,
    pub written_in_phase: BTreeSet<String>,
    last_names: BTreeMap<String, BTreeSet<String>>,
    pub violations: Vec<Violation>,
    lock_holder: Option<usize>,
    last_lock_thread: Option<usize>,
    last_lock_files: BTreeSet<String>,
    cs_files: BTreeSet<String>,
    cands: Cands,
    queue_next: usize,
    opts: ExecOpts,
    multi: bool,
    ilv: u64,
    placed: BTreeMap<usize, (String, Vec<(String, Node)>)>,
}

pub struct Run {
    pub model: Model,
    pub plan: Plan,
    sched: RwLock<Option<Arc<Sched>>>,
    pub world: Mutex<World>,
}

static RUN: RwLock<Option<Arc<Run>>> = RwLock::new(None);

fn current_run() -> Option<Arc<Run>> {
    RUN.read().unwrap().clone()
}

struct SimBackend;

fn path_str(p: &Path) -> String {
    p.to_string_lossy().into_owned()
}

impl World {
    fn bump(map: &mut BTreeMap<String, u64>, k: &str) {
        *map.entry(k.to_string()).or_insert(0) += 1;
    }

    pub fn probe(&mut self, k: &str) {
        Self::bump(&mut self.probes, k);
    }

    fn push(&mut self, op: FsOp, key: String, n: i64, errno: i32) -> u64 {
        let tid = TID.with(|t| t.get());
        let (phase, list, call) = CALL.with(|c| c.get());
        self.seq += 1;
        self.ilv = mix(&[self.ilv, tid as u64, op as u64, fnv(key.as_bytes())]);
        self.log.push(LogEntry {
            seq: self.seq,
            phase: if tid == NO_TID { self.phase } else { phase },
            thread: tid,
            call: if tid == NO_TID { usize::MAX } else { call },
            list,
            op,
            key,
            n,
            errno,
        });
        self.seq
    }

    fn key_of(&self, raw: &str) -> String {
        match self.fs.resolve(raw) {
            Ok((k, _)) => k,
            Err(_) => raw.to_string(),
        }
    }

    /// Hard I/O error injection (observational): fail the n-th data-path call.
    fn hard_fault(&mut self, what: &str) -> Option<i32> {
        self.data_calls += 1;
        if self.faults.hard_io_at == Some(self.data_calls) {
            Self::bump(&mut self.fired, &format!("hard_io:{what}"));
            return Some(match what {
                "open" | "mkdir" => simfs::EACCES,
                "write" => simfs::ENOSPC,
                _ => simfs::EIO,
            });
        }
        None
    }

    /// In-run invariants over every file written so far in this phase.
    fn check_files(&mut self, model: &Model, when: &str) {
        if self.opts.no_invariants {
            return;
        }
        let files: Vec<String> = self.written_in_phase.iter().cloned().collect();
        for f in files {
            let Some(bytes) = self.fs.file(&f).map(|b| b.to_vec()) else {
                continue; // displaced by an obstacle, or never created
            };
            let text = match String::from_utf8(bytes.clone()) {
                Ok(t) => t,
                Err(_) => {
                    self.violations.push(Violation::new(
                        "parse",
                        &["C04"],
                        Some(&f),
                        format!("{when}: file is not UTF-8"),
                    ));
                    continue;
                }
            };
            let module = match tsparse::parse_module(&text) {
                Ok(m) => m,
                Err(e) => {
                    self.violations.push(Violation::new(
                        "parse",
                        &["C04"],
                        Some(&f),
                        format!("{when}: file does not parse: {e}\n--- contents ---\n{text}"),
                    ));
                    continue;
                }
            };
            let names: BTreeSet<String> = module.decls.iter().map(|d| d.name.clone()).collect();
            if names.len() != module.decls.len() {
                self.violations.push(Violation::new(
                    "exactly-once",
                    &["C04", "C05"],
                    Some(&f),
                    format!("{when}: a name is declared more than once\n--- contents ---\n{text}"),
                ));
            }
            if let Some(prev) = self.last_names.get(&f) {
                let lost: Vec<&String> = prev.difference(&names).collect();
                if !lost.is_empty() {
                    self.violations.push(Violation::new(
                        "lost-declaration",
                        &["C05", "C06"],
                        Some(&f),
                        format!("{when}: declarations {lost:?} were in the file earlier in this process and are gone\n--- contents ---\n{text}"),
                    ));
                }
            }
            self.last_names.insert(f.clone(), names.clone());
            let cands = self.cands.get(&f);
            let mut entries = BTreeMap::new();
            let mut unknown = vec![];
            for n in &names {
                match cands.and_then(|c| c.get(n)) {
                    Some(e) => {
                        entries.insert(n.clone(), e.clone());
                    }
                    None => unknown.push(n.clone()),
                }
            }
            if !unknown.is_empty() {
                self.violations.push(Violation::new(
                    "foreign-declaration",
                    &["C04", "C06"],
                    Some(&f),
                    format!("{when}: file declares {unknown:?}, which no export of this process puts there\n--- contents ---\n{text}"),
                ));
                continue;
            }
            if !self.opts.no_render && !model.matches_render(&entries, &bytes) {
                let want = model.render(&entries, crate::model::Order::Ident);
                self.violations.push(Violation::new(
                    "render",
                    &["C05", "C06"],
                    Some(&f),
                    format!(
                        "{when}: file is not the canonical rendering of the declarations {:?} it holds\n--- expected ---\n{want}\n--- actual ---\n{text}",
                        names
                    ),
                ));
            }
        }
    }
}

impl Run {
    fn point(&self, kind: PKind) {
        let tid = TID.with(|t| t.get());
        if tid == NO_TID {
            return;
        }
        let s = self.sched.read().unwrap().clone();
        if let Some(s) = s {
            s.yield_point(tid, kind);
        }
    }
}

fn with_run<R>(f: impl FnOnce(&Run) -> R, fallback: impl FnOnce() -> R) -> R {
    match current_run() {
        Some(r) => f(&r),
        None => fallback(),
    }
}

impl Backend for SimBackend {
    fn env_var(&self, key: &str) -> Option<String> {
        with_run(
            |r| {
                r.point(PKind::Env);
                let mut w = r.world.lock().unwrap();
                w.push(FsOp::Env, key.to_string(), 0, 0);
                if key == "TS_RS_EXPORT_DIR" {
                    r.plan.cfg.env_dir.clone()
                } else {
                    None
                }
            },
            || None,
        )
    }

    fn current_dir(&self) -> io::Result<PathBuf> {
        with_run(
            |r| {
                r.point(PKind::Env);
                let mut w = r.world.lock().unwrap();
                w.push(FsOp::Cwd, String::new(), 0, 0);
                Ok(PathBuf::from(&r.plan.cfg.cwd))
            },
            || Ok(PathBuf::from("/")),
        )
    }

    fn mkdir(&self, path: &Path) -> io::Result<()> {
        with_run(
            |r| {
                r.point(PKind::Fs);
                let raw = path_str(path);
                let mut w = r.world.lock().unwrap();
                let key = w.key_of(&raw);
                if let Some(e) = w.hard_fault("mkdir") {
                    w.push(FsOp::Mkdir, key, 0, e);
                    return Err(errno(e));
                }
                match w.fs.mkdir(&raw) {
                    Ok(()) => {
                        w.push(FsOp::Mkdir, key, 0, 0);
                        Ok(())
                    }
                    Err(e) => {
                        if e == simfs::EEXIST && w.multi {
                            w.probe("mkdir_eexist");
                        }
                        w.push(FsOp::Mkdir, key, 0, e);
                        Err(errno(e))
                    }
                }
            },
            || Err(errno(simfs::EIO)),
        )
    }

    fn is_dir(&self, path: &Path) -> bool {
        with_run(
            |r| {
                r.point(PKind::Fs);
                let raw = path_str(path);
                let mut w = r.world.lock().unwrap();
                let key = w.key_of(&raw);
                let d = w.fs.is_dir(&raw);
                w.push(FsOp::IsDir, key, d as i64, 0);
                d
            },
            || false,
        )
    }

    fn open(&self, path: &Path, f: OpenFlags) -> io::Result<u64> {
        with_run(
            |r| {
                r.point(PKind::Fs);
                let raw = path_str(path);
                let tid = TID.with(|t| t.get());
                let mut w = r.world.lock().unwrap();
                let key = w.key_of(&raw);
                let op = if f.truncate {
                    FsOp::OpenTrunc
                } else if f.read && f.write {
                    FsOp::OpenRw
                } else {
                    FsOp::OpenOther
                };
                if let Some(e) = w.hard_fault("open") {
                    w.push(op, key, 0, e);
                    return Err(errno(e));
                }
                match w.fs.open(&raw, f.read, f.write, f.create, f.truncate) {
                    Ok((fd, key, created, truncated)) => {
                        if f.write {
                            w.written_in_phase.insert(key.clone());
                            w.cs_files.insert(key.clone());
                            if w.lock_holder != Some(tid) {
                                w.probe("open_for_write_outside_lock");
                            }
                        }
                        if created {
                            w.probe("file_created");
                        }
                        if let Some(n) = truncated {
                            if n > 0 {
                                w.probe("first_touch_truncated_existing_bytes");
                            }
                        }
                        if op == FsOp::OpenRw {
                            w.probe("merge_path_taken");
                        }
                        w.push(op, key, truncated.map(|n| n as i64).unwrap_or(-1), 0);
                        Ok(fd)
                    }
                    Err(e) => {
                        w.push(op, key, 0, e);
                        Err(errno(e))
                    }
                }
            },
            || Err(errno(simfs::EIO)),
        )
    }

    fn fstat_len(&self, fd: u64) -> io::Result<u64> {
        with_run(
            |r| {
                r.point(PKind::Fs);
                let mut w = r.world.lock().unwrap();
                let key = w.fs.fd_key(fd).unwrap_or("?").to_string();
                match w.fs.fstat_len(fd) {
                    Ok(n) => {
                        w.push(FsOp::Fstat, key, n as i64, 0);
                        Ok(n)
                    }
                    Err(e) => {
                        w.push(FsOp::Fstat, key, 0, e);
                        Err(errno(e))
                    }
                }
            },
            || Err(errno(simfs::EBADF)),
        )
    }

    fn read(&self, fd: u64, buf: &mut [u8]) -> io::Result<usize> {
        with_run(
            |r| {
                r.point(PKind::Fs);
                let mut w = r.world.lock().unwrap();
                let key = w.fs.fd_key(fd).unwrap_or("?").to_string();
                let eintr = w.faults.eintr;
                if eintr > 0 && w.fault_rng.pct(eintr) {
                    World::bump(&mut w.fired, "eintr_read");
                    w.push(FsOp::Read, key, 0, simfs::EINTR);
                    return Err(errno(simfs::EINTR));
                }
                let mut max = usize::MAX;
                let sr = w.faults.short_read;
                if sr > 0 && buf.len() > 1 && w.fault_rng.pct(sr) {
                    max = 1 + w.fault_rng.below(buf.len().min(64));
                }
                match w.fs.read(fd, buf, max) {
                    Ok(n) => {
                        if max != usize::MAX && n == max {
                            World::bump(&mut w.fired, "short_read");
                        }
                        w.push(FsOp::Read, key, n as i64, 0);
                        Ok(n)
                    }
                    Err(e) => {
                        w.push(FsOp::Read, key, 0, e);
                        Err(errno(e))
                    }
                }
            },
            || Err(errno(simfs::EBADF)),
        )
    }

    fn write(&self, fd: u64, buf: &[u8]) -> io::Result<usize> {
        with_run(
            |r| {
                r.point(PKind::Fs);
                let tid = TID.with(|t| t.get());
                let mut w = r.world.lock().unwrap();
                let key = w.fs.fd_key(fd).unwrap_or("?").to_string();
                if w.lock_holder != Some(tid) {
                    w.probe("write_outside_lock");
                }
                let eintr = w.faults.eintr;
                if eintr > 0 && w.fault_rng.pct(eintr) {
                    World::bump(&mut w.fired, "eintr_write");
                    w.push(FsOp::Write, key, 0, simfs::EINTR);
                    return Err(errno(simfs::EINTR));
                }
                if let Some(e) = w.hard_fault("write") {
                    // a failing write may still have written a prefix
                    let part = buf.len() / 2;
                    let _ = w.fs.write(fd, buf, part);
                    w.push(FsOp::Write, key, part as i64, e);
                    return Err(errno(e));
                }
                let mut max = usize::MAX;
                let sw = w.faults.short_write;
                if sw > 0 && buf.len() > 1 && w.fault_rng.pct(sw) {
                    max = 1 + w.fault_rng.below(buf.len() - 1);
                }
                match w.fs.write(fd, buf, max) {
                    Ok(n) => {
                        if n < buf.len() {
                            World::bump(&mut w.fired, "short_write");
                        }
                        w.push(FsOp::Write, key, n as i64, 0);
                        Ok(n)
                    }
                    Err(e) => {
                        w.push(FsOp::Write, key, 0, e);
                        Err(errno(e))
                    }
                }
            },
            || Err(errno(simfs::EBADF)),
        )
    }

    fn seek(&self, fd: u64, pos: io::SeekFrom) -> io::Result<u64> {
        with_run(
            |r| {
                r.point(PKind::Fs);
                let mut w = r.world.lock().unwrap();
                let key = w.fs.fd_key(fd).unwrap_or("?").to_string();
                match w.fs.seek(fd, pos) {
                    Ok(n) => {
                        w.push(FsOp::Seek, key, n as i64, 0);
                        Ok(n)
                    }
                    Err(e) => {
                        w.push(FsOp::Seek, key, 0, e);
                        Err(errno(e))
                    }
                }
            },
            || Err(errno(simfs::EBADF)),
        )
    }

    fn fsync(&self, fd: u64) -> io::Result<()> {
        with_run(
            |r| {
                r.point(PKind::Fs);
                let mut w = r.world.lock().unwrap();
                let key = w.fs.fd_key(fd).unwrap_or("?").to_string();
                if let Some(e) = w.hard_fault("fsync") {
                    w.push(FsOp::Fsync, key, 0, e);
                    return Err(errno(e));
                }
                w.push(FsOp::Fsync, key, 0, 0);
                Ok(())
            },
            || Ok(()),
        )
    }

    fn close(&self, fd: u64) {
        with_run(
            |r| {
                // closing is not a scheduling point: it happens in destructors, possibly
                // during unwinding, and has no effect another thread could observe
                let mut w = r.world.lock().unwrap();
                let key = w.fs.fd_key(fd).unwrap_or("?").to_string();
                w.fs.close(fd);
                w.push(FsOp::Close, key, 0, 0);
            },
            || (),
        )
    }

    fn rename(&self, from: &Path, to: &Path) -> io::Result<()> {
        with_run(
            |r| {
                r.point(PKind::Fs);
                let (rf, rt) = (path_str(from), path_str(to));
                let mut w = r.world.lock().unwrap();
                match w.fs.rename(&rf, &rt) {
                    Ok((_, tk)) => {
                        // the target now holds what was written under the old name
                        w.written_in_phase.insert(tk.clone());
                        w.cs_files.insert(tk.clone());
                        w.push(FsOp::Rename, tk, 0, 0);
                        Ok(())
                    }
                    Err(e) => {
                        let k = w.key_of(&rt);
                        w.push(FsOp::Rename, k, 0, e);
                        Err(errno(e))
                    }
                }
            },
            || Err(errno(simfs::EIO)),
        )
    }

    fn remove_file(&self, path: &Path) -> io::Result<()> {
        with_run(
            |r| {
                r.point(PKind::Fs);
                let raw = path_str(path);
                let mut w = r.world.lock().unwrap();
                match w.fs.unlink(&raw) {
                    Ok(k) => {
                        w.push(FsOp::Unlink, k, 0, 0);
                        Ok(())
                    }
                    Err(e) => {
                        let k = w.key_of(&raw);
                        w.push(FsOp::Unlink, k, 0, e);
                        Err(errno(e))
                    }
                }
            },
            || Err(errno(simfs::EIO)),
        )
    }

    fn set_len(&self, fd: u64, len: u64) -> io::Result<()> {
        with_run(
            |r| {
                r.point(PKind::Fs);
                let mut w = r.world.lock().unwrap();
                match w.fs.set_len(fd, len) {
                    Ok(k) => {
                        w.push(FsOp::SetLen, k, len as i64, 0);
                        Ok(())
                    }
                    Err(e) => {
                        w.push(FsOp::SetLen, String::new(), len as i64, e);
                        Err(errno(e))
                    }
                }
            },
            || Err(errno(simfs::EBADF)),
        )
    }

    fn stat(&self, path: &Path) -> io::Result<(bool, u64)> {
        with_run(
            |r| {
                r.point(PKind::Fs);
                let raw = path_str(path);
                let mut w = r.world.lock().unwrap();
                let k = w.key_of(&raw);
                match w.fs.stat(&raw) {
                    Ok(x) => {
                        w.push(FsOp::Stat, k, x.1 as i64, 0);
                        Ok(x)
                    }
                    Err(e) => {
                        w.push(FsOp::Stat, k, 0, e);
                        Err(errno(e))
                    }
                }
            },
            || Err(errno(simfs::EIO)),
        )
    }

    fn lock_acquire(&self, label: &'static str) {
        with_run(
            |r| {
                r.point(PKind::Lock);
                let tid = TID.with(|t| t.get());
                let mut w = r.world.lock().unwrap();
                w.lock_holder = Some(tid);
                w.cs_files.clear();
                w.push(FsOp::Lock, label.to_string(), 0, 0);
            },
            || (),
        )
    }

    fn lock_release(&self, label: &'static str) {
        with_run(
            |r| {
                let tid = TID.with(|t| t.get());
                {
                    let mut w = r.world.lock().unwrap();
                    w.lock_holder = None;
                    w.push(FsOp::Unlock, label.to_string(), 0, 0);
                    let files = std::mem::take(&mut w.cs_files);
                    if files.is_empty() {
                        w.probe("critical_section_without_write");
                    }
                    if w.multi {
                        if let Some(prev) = w.last_lock_thread {
                            if prev != tid && !files.is_empty() && files.intersection(&w.last_lock_files).next().is_some() {
                                w.probe("lock_handover_same_file");
                            }
                        }
                    }
                    if !files.is_empty() {
                        w.last_lock_thread = Some(tid);
                        w.last_lock_files = files;
                    }
                    w.check_files(&r.model, "at lock release");
                }
                r.point(PKind::Unlock);
            },
            || (),
        )
    }

    fn visit_order(&self, type_name: &str, n: usize) -> Vec<usize> {
        with_run(
            |r| {
                r.point(PKind::Visit);
                let seed = r.plan.visit_seed;
                let mut w = r.world.lock().unwrap();
                w.push(FsOp::Visit, type_name.to_string(), n as i64, 0);
                if seed == 0 || n < 2 {
                    (0..n).collect()
                } else {
                    let p = Rng::new(mix(&[seed, fnv(type_name.as_bytes()), n as u64])).perm(n);
                    if p.iter().enumerate().any(|(i, x)| i != *x) {
                        w.probe("non_identity_visit_order");
                    }
                    p
                }
            },
            || (0..n).collect(),
        )
    }
}

/// Run `f` with panic messages suppressed (used when probing which generated corpus types can be
/// rendered at all).
pub fn quietly<R>(f: impl FnOnce() -> R) -> R {
    init_process();
    let old = TID.with(|t| t.replace(0));
    let r = f();
    TID.with(|t| t.set(old));
    r
}

static INIT: Once = Once::new();

/// Install the backend and a quiet panic hook; once per process.
pub fn init_process() {
    INIT.call_once(|| {
        verif_seam::install(Some(Arc::new(SimBackend)));
        let default = std::panic::take_hook();
        std::panic::set_hook(Box::new(move |info| {
            if TID.with(|t| t.get()) != NO_TID {
                let msg = if let Some(s) = info.payload().downcast_ref::<&str>() {
                    s.to_string()
                } else if let Some(s) = info.payload().downcast_ref::<String>() {
                    s.clone()
                } else {
                    "<non-string panic>".to_string()
                };
                let loc = info
                    .location()
                    .map(|l| {
                        let f = l.file();
                        let f = f.rsplit_once("/repo/").map(|x| x.1).unwrap_or(f);
                        format!(" at {}:{}", f, l.line())
                    })
                    .unwrap_or_default();
                PANIC_MSG.with(|p| *p.borrow_mut() = Some(format!("{msg}{loc}")));
            } else {
                default(info);
            }
        }));
    });
}

fn classify(r: Result<(), ExportError>) -> CallResult {
    match r {
        Ok(()) => CallResult::Ok,
        Err(e) => err_result(e),
    }
}

fn err_result(e: ExportError) -> CallResult {
    let kind = match &e {
        ExportError::CannotBeExported(_) => "CannotBeExported".to_string(),
        ExportError::Io(io) => format!("Io:{:?}", io.kind()),
        ExportError::Fmt(_) => "Fmt".to_string(),
        ExportError::ManifestDirNotSet => "ManifestDirNotSet".to_string(),
        #[allow(unreachable_patterns)]
        _ => "Formatting".to_string(),
    };
    CallResult::Err {
        kind,
        msg: format!("{e:?}"),
    }
}

fn do_op(op: &Op) -> CallResult {
    let h = handle_of(op.ty());
    PANIC_MSG.with(|p| *p.borrow_mut() = None);
    let r = catch_unwind(AssertUnwindSafe(|| match op {
        Op::Export { .. } => classify((h.export)()),
        Op::ExportAll { .. } => classify((h.export_all)()),
        Op::ExportAllTo { dir, .. } => classify((h.export_all_to)(Path::new(dir))),
        Op::ToString { .. } => match (h.export_to_string)() {
            Ok(text) => CallResult::Text { text },
            Err(e) => err_result(e),
        },
        Op::Paths { .. } => CallResult::Text {
            text: format!(
                "{}|{}",
                (h.output_path)().map(|p| path_str(&p)).unwrap_or_default(),
                (h.default_output_path)().map(|p| path_str(&p)).unwrap_or_default()
            ),
        },
    }));
    match r {
        Ok(c) => c,
        Err(_) => CallResult::Panic {
            msg: PANIC_MSG
                .with(|p| p.borrow_mut().take())
                .unwrap_or_else(|| "<panic>".into()),
        },
    }
}

/// Place / remove the obstacles scheduled for this call boundary.
fn apply_obstacles(run: &Run, phase: &Phase, list: usize, idx: usize) {
    let mut w = run.world.lock().unwrap();
    for (oi, ob) in phase.obstacles.iter().enumerate() {
        if ob.thread != list {
            continue;
        }
        if ob.remove_before == idx {
            if let Some((key, saved)) = w.placed.remove(&oi) {
                w.fs.remove_subtree(&key);
                w.fs.restore(saved);
                w.probe("obstacle_removed");
            }
        }
        if ob.place_before == idx && !w.placed.contains_key(&oi) {
            // an obstacle appears between calls, never in the middle of another thread's
            // write: yanking a file away from under an open descriptor is outside
            // interference no listed obstacle can cause
            if w.fs.has_open_under(&ob.path) {
                w.probe("obstacle_skipped_descriptor_open_below");
                continue;
            }
            let saved = w.fs.remove_subtree(&ob.path);
            match ob.kind {
                ObKind::TargetIsDir => w.fs.mkdir_p(&ob.path),
                ObKind::ParentIsFile => {
                    w.fs.put_file(&ob.path, b"obstacle: a regular file where a directory is needed\n");
                }
            }
            w.placed.insert(oi, (ob.path.clone(), saved));
            w.probe("obstacle_placed");
        }
    }
}

fn run_call(run: &Run, pi: usize, phase: &Phase, tid: usize, list: usize, idx: usize, op: &Op, retry: bool, single: bool, out: &Mutex<Vec<CallRecord>>) {
    CALL.with(|c| c.set((pi, list, idx)));
    if !retry {
        run.point(PKind::CallBoundary);
        apply_obstacles(run, phase, list, idx);
    }
    let seq_start = {
        let mut w = run.world.lock().unwrap();
        w.push(FsOp::CallStart, op.kind().to_string(), op.ty() as i64, 0)
    };
    let result = do_op(op);
    let (seq_end, snapshot) = {
        let mut w = run.world.lock().unwrap();
        let open = w.fs.open_fds();
        if open != 0 && single {
            w.violations.push(Violation::new(
                "fd-leak",
                &["C17"],
                None,
                format!("{open} file descriptors still open after call {idx}"),
            ));
        }
        let s = w.push(FsOp::CallEnd, op.kind().to_string(), op.ty() as i64, if result.is_ok() { 0 } else { 1 });
        let snap = if single && w.opts.snapshots {
            Some(w.fs.files())
        } else {
            None
        };
        (s, snap)
    };
    CALL.with(|c| c.set((pi, list, usize::MAX)));
    out.lock().unwrap().push(CallRecord {
        phase: pi,
        list,
        idx,
        thread: tid,
        op: op.clone(),
        result,
        retry,
        seq_start,
        seq_end,
        snapshot,
    });
}

/// Compute what the ops of a phase may add (for the in-run invariants).
pub fn phase_cands(model: &Model, phase: &Phase) -> Cands {
    let mut c: Cands = BTreeMap::new();
    for op in phase.threads.iter().flatten() {
        if let Ok(adds) = crate::oracle::op_adds(model, op) {
            for (file, ident, ty, base) in adds {
                c.entry(file).or_default().entry(ident).or_insert((ty, base));
            }
        }
    }
    c
}

pub fn execute(plan: &Plan, opts: ExecOpts) -> Exec {
    init_process();
    install_table(Arc::new(plan.table.clone()));
    TID.with(|t| t.set(NO_TID));

    // model first (reads declaration text of derived types; backend calls from here are
    // unscheduled and unlogged because no run is installed yet)
    *RUN.write().unwrap() = None;
    let model = Model::build(
        &plan.table,
        &plan.cfg.cwd,
        plan.cfg.env_dir.as_deref(),
        cfg!(feature = "esm"),
        &plan.types(),
    );

    let mut fs = SimFs::new(&plan.cfg.cwd);
    for f in &plan.cfg.initial {
        fs.put_file(&f.path, f.bytes.as_bytes());
    }
    let initial_files = fs.files();

    let world = World {
        fs,
        log: Vec::with_capacity(256),
        seq: 0,
        fault_rng: Rng::new(plan.cfg.faults.seed),
        faults: plan.cfg.faults.clone(),
        data_calls: 0,
        fired: BTreeMap::new(),
        probes: BTreeMap::new(),
        phase: 0,
        written_in_phase: BTreeSet::new(),
        last_names: BTreeMap::new(),
        violations: vec![],
        lock_holder: None,
        last_lock_thread: None,
        last_lock_files: BTreeSet::new(),
        cs_files: BTreeSet::new(),
        cands: BTreeMap::new(),
        queue_next: 0,
        opts,
        multi: false,
        ilv: 0,
        placed: BTreeMap::new(),
    };
    let run = Arc::new(Run {
        model,
        plan: plan.clone(),
        sched: RwLock::new(None),
        world: Mutex::new(world),
    });
    *RUN.write().unwrap() = Some(run.clone());

    let calls: Mutex<Vec<CallRecord>> = Mutex::new(vec![]);
    let mut exec = Exec {
        initial_files,
        ..Default::default()
    };

    for (pi, phase) in plan.phases.iter().enumerate() {
        if phase.fresh_process {
            verif_seam::reset_registry();
        }
        let queue = phase.queue_workers > 0;
        let nthreads = if queue { phase.queue_workers } else { phase.threads.len() };
        {
            let mut w = run.world.lock().unwrap();
            w.phase = pi;
            if phase.fresh_process {
                w.written_in_phase.clear();
                w.last_names.clear();
            }
            let cands = phase_cands(&run.model, phase);
            if phase.fresh_process {
                w.cands = cands;
            } else {
                for (f, m) in cands {
                    w.cands.entry(f).or_default().extend(m);
                }
            }
            w.queue_next = 0;
            w.multi = nthreads > 1;
            w.last_lock_thread = None;
            w.last_lock_files.clear();
        }
        let mut stats = PhaseStats {
            threads: nthreads,
            ..Default::default()
        };
        if nthreads <= 1 && !queue {
            // single simulated thread: no hand-offs needed, run it right here
            *run.sched.write().unwrap() = None;
            TID.with(|t| t.set(0));
            if let Some(ops) = phase.threads.first() {
                for (idx, op) in ops.iter().enumerate() {
                    run_call(&run, pi, phase, 0, 0, idx, op, false, true, &calls);
                }
                // obstacles scheduled for removal after the last call
                apply_obstacles(&run, phase, 0, ops.len());
            }
            TID.with(|t| t.set(NO_TID));
        } else {
            let sched = Arc::new(Sched::new(nthreads, &phase.chooser, plan.step_cap));
            *run.sched.write().unwrap() = Some(sched.clone());
            let prefer = match &phase.chooser {
                crate::sched::Chooser::RoundRobinCs { first } => Some(*first as usize % nthreads),
                _ => None,
            };
            std::thread::scope(|scope| {
                for tid in 0..nthreads {
                    let run = &run;
                    let sched = &sched;
                    let calls = &calls;
                    scope.spawn(move || {
                        TID.with(|t| t.set(tid));
                        CALL.with(|c| c.set((pi, tid, usize::MAX)));
                        sched.thread_start(tid);
                        if queue {
                            loop {
                                // popping from the work queue happens at a scheduling point
                                run.point(PKind::CallBoundary);
                                let next = {
                                    let mut w = run.world.lock().unwrap();
                                    let i = w.queue_next;
                                    if i < phase.threads[0].len() {
                                        w.queue_next += 1;
                                        Some(i)
                                    } else {
                                        None
                                    }
                                };
                                match next {
                                    Some(i) => run_call(run, pi, phase, tid, 0, i, &phase.threads[0][i], false, false, calls),
                                    None => break,
                                }
                            }
                        } else {
                            for (idx, op) in phase.threads[tid].iter().enumerate() {
                                run_call(run, pi, phase, tid, tid, idx, op, false, false, calls);
                            }
                            apply_obstacles(run, phase, tid, phase.threads[tid].len());
                        }
                        TID.with(|t| t.set(NO_TID));
                        sched.thread_finish(tid);
                    });
                }
                sched.run_to_completion(prefer);
                if sched.with_state(|s| s.deadlock) {
                    // cannot join parked threads: report and bail out of the process
                    eprintln!("HARNESS ERROR: no simulated thread is enabled but some are unfinished (plan seed {})", plan.seed);
                    std::process::exit(2);
                }
            });
            sched.with_state(|s| {
                stats.trace = s.trace.clone();
                stats.steps = s.steps;
                stats.lock_order = s.lock_order.clone();
                stats.switches = s.switches;
                stats.capped = s.capped;
            });
            *run.sched.write().unwrap() = None;
        }
        // make sure no obstacle outlives its phase
        {
            let mut w = run.world.lock().unwrap();
            let placed: Vec<usize> = w.placed.keys().copied().collect();
            for oi in placed {
                if let Some((key, saved)) = w.placed.remove(&oi) {
                    w.fs.remove_subtree(&key);
                    w.fs.restore(saved);
                }
            }
        }
        if phase.retry_failed {
            TID.with(|t| t.set(0));
            let failed: Vec<(usize, usize, Op)> = calls
                .lock()
                .unwrap()
                .iter()
                .filter(|c| c.phase == pi && !c.result.is_ok() && !c.retry)
                .map(|c| (c.list, c.idx, c.op.clone()))
                .collect();
            for (list, idx, op) in failed {
                run_call(&run, pi, phase, 0, list, idx, &op, true, false, &calls);
            }
            TID.with(|t| t.set(NO_TID));
        }
        {
            let mut w = run.world.lock().unwrap();
            w.check_files(&run.model, "at end of phase");
            exec.written.push(w.written_in_phase.clone());
        }
        exec.registry.push(verif_seam::registry_snapshot().map(|m| {
            m.into_iter()
                .map(|(k, v)| (k.to_string_lossy().into_owned(), v))
                .collect()
        }));
        exec.phases.push(stats);
    }

    *RUN.write().unwrap() = None;
    let mut w = run.world.lock().unwrap();
    exec.calls = std::mem::take(&mut *calls.lock().unwrap());
    exec.calls.sort_by_key(|c| c.seq_start);
    exec.log = std::mem::take(&mut w.log);
    exec.final_files = w.fs.files();
    exec.final_dirs = w
        .fs
        .nodes
        .iter()
        .filter(|(_, n)| matches!(n, Node::Dir))
        .map(|(k, _)| k.clone())
        .collect();
    exec.violations = std::mem::take(&mut w.violations);
    exec.probes = std::mem::take(&mut w.probes);
    exec.fired = std::mem::take(&mut w.fired);
    exec.interleaving_hash = w.ilv;
    let _ = NOTE;
    exec
}

/// The model of a plan, built the same way `execute` builds it.
pub fn model_of(plan: &Plan) -> Model {
    init_process();
    install_table(Arc::new(plan.table.clone()));
    *RUN.write().unwrap() = None;
    Model::build(
        &plan.table,
        &plan.cfg.cwd,
        plan.cfg.env_dir.as_deref(),
        cfg!(feature = "esm"),
        &plan.types(),
    )
}
