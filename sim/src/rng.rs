//! The only source of randomness in the simulator: splitmix64 for seeding and stream derivation,
//! xoshiro256** for draws. Nothing here reads a clock or OS entropy.

pub fn splitmix64(state: &mut u64) -> u64 {
    *state = state.wrapping_add(0x9E37_79B9_7F4A_7C15);
    let mut z = *state;
    z = (z ^ (z >> 30)).wrapping_mul(0xBF58_476D_1CE4_E5B9);
    z = (z ^ (z >> 27)).wrapping_mul(0x94D0_49BB_1331_11EB);
    z ^ (z >> 31)
}

/// Mix several integers into one seed (order-sensitive).
pub fn mix(parts: &[u64]) -> u64 {
    let mut s = 0x243F_6A88_85A3_08D3u64;
    for p in parts {
        s ^= *p;
        splitmix64(&mut s);
        s = s.rotate_left(23) ^ splitmix64(&mut s);
    }
    s
}

/// FNV-1a over bytes; used wherever a stable hash of a string is needed (never `RandomState`).
pub fn fnv(bytes: &[u8]) -> u64 {
    let mut h = 0xcbf2_9ce4_8422_2325u64;
    for b in bytes {
        h ^= *b as u64;
        h = h.wrapping_mul(0x0000_0100_0000_01B3);
    }
    h
}

#[derive(Clone, Debug)]
pub struct Rng([u64; 4]);

impl Rng {
    pub fn new(seed: u64) -> Self {
        let mut s = seed;
        Rng([
            splitmix64(&mut s),
            splitmix64(&mut s),
            splitmix64(&mut s),
            splitmix64(&mut s),
        ])
    }

    pub fn next_u64(&mut self) -> u64 {
        let s = &mut self.0;
        let result = s[1].wrapping_mul(5).rotate_left(7).wrapping_mul(9);
        let t = s[1] << 17;
        s[2] ^= s[0];
        s[3] ^= s[1];
        s[1] ^= s[2];
        s[0] ^= s[3];
        s[2] ^= t;
        s[3] = s[3].rotate_left(45);
        result
    }

    /// Uniform in `0..n` (`n > 0`).
    pub fn below(&mut self, n: usize) -> usize {
        debug_assert!(n > 0);
        ((self.next_u64() >> 11) % n as u64) as usize
    }

    /// Inclusive range.
    pub fn range(&mut self, lo: usize, hi: usize) -> usize {
        lo + self.below(hi - lo + 1)
    }

    /// True with probability `pct`/100.
    pub fn pct(&mut self, pct: u32) -> bool {
        (self.below(100) as u32) < pct
    }

    pub fn pick<'a, T>(&mut self, xs: &'a [T]) -> &'a T {
        &xs[self.below(xs.len())]
    }

    pub fn shuffle<T>(&mut self, xs: &mut [T]) {
        for i in (1..xs.len()).rev() {
            let j = self.below(i + 1);
            xs.swap(i, j);
        }
    }

    pub fn perm(&mut self, n: usize) -> Vec<usize> {
        let mut v: Vec<usize> = (0..n).collect();
        self.shuffle(&mut v);
        v
    }
}
