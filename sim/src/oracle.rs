//! Oracles over a finished execution: the reference model's expectation of results and of the
//! final tree, the operation-log oracles (C11, idempotence), the import oracles (C03, C08).
//! Every violation carries the properties it belongs to; a check for property X fails only on
//! X-tagged violations.

use std::collections::{BTreeMap, BTreeSet};

use crate::{
    exec::{CallRecord, CallResult, Exec, FsOp, Violation},
    model::{self, AboveRoot, Model},
    plan::{Op, Plan},
    tsparse,
    uni::Ty,
};

#[derive(Clone, Copy, Debug, PartialEq, Eq)]
pub enum ExpectErr {
    NotExportable,
    AboveRoot,
}

/// What a successful `op` adds: (file, ident, type, normalised base). `Err` if the model says
/// the call must fail.
pub fn op_adds(model: &Model, op: &Op) -> Result<Vec<(String, String, Ty, String)>, ExpectErr> {
    let (root, base, all) = match op {
        Op::Export { ty } => (*ty, model.default_base.clone(), false),
        Op::ExportAll { ty } => (*ty, model.default_base.clone(), true),
        Op::ExportAllTo { ty, dir } => (*ty, dir.clone(), true),
        Op::ToString { ty } => {
            if model.info(*ty).file.is_none() {
                return Err(ExpectErr::NotExportable);
            }
            // the text is produced without touching the file system; a path above the root only
            // matters when a specifier has to be computed from or to it
            let base = &model.default_base;
            let me = model.info(*ty);
            let own_bad = matches!(model.location(*ty, base), Some(Err(_)));
            for r in &me.import_refs {
                if model.info(*r).ident == me.ident {
                    continue;
                }
                match model.location(*r, base) {
                    Some(Err(AboveRoot)) => return Err(ExpectErr::AboveRoot),
                    Some(Ok(_)) if own_bad => return Err(ExpectErr::AboveRoot),
                    _ => {}
                }
            }
            return Ok(vec![]);
        }
        Op::Paths { .. } => return Ok(vec![]),
    };
    if model.info(root).file.is_none() {
        return Err(ExpectErr::NotExportable);
    }
    let tys = if all { model.closure(root) } else { vec![root] };
    let nbase = model.norm_base(&base).map_err(|_| ExpectErr::AboveRoot)?;
    let mut out = vec![];
    for t in tys {
        let i = model.info(t);
        match model.location(t, &base) {
            Some(Ok(file)) => out.push((file, i.ident.clone(), t, nbase.clone())),
            Some(Err(AboveRoot)) => return Err(ExpectErr::AboveRoot),
            None => {}
        }
        // a file cannot be written if something it has to import lies above the root:
        // there is no specifier for it
        for r in &i.import_refs {
            if let Some(Err(AboveRoot)) = model.location(*r, &base) {
                return Err(ExpectErr::AboveRoot);
            }
        }
    }
    Ok(out)
}

/// Everything a call may have written even if the model expects it to fail half-way
/// (an `export_all` that hits an above-root dependency has legitimately written what it
/// visited before).
pub fn op_may_add(model: &Model, op: &Op) -> Vec<(String, String)> {
    if let Ok(a) = op_adds(model, op) {
        return a.into_iter().map(|x| (x.0, x.1)).collect();
    }
    let (root, base) = match op {
        Op::ExportAll { ty } => (*ty, model.default_base.clone()),
        Op::ExportAllTo { ty, dir } => (*ty, dir.clone()),
        _ => return vec![],
    };
    if model.info(root).file.is_none() {
        return vec![];
    }
    model
        .closure(root)
        .into_iter()
        .filter_map(|t| match model.location(t, &base) {
            Some(Ok(f)) => Some((f, model.info(t).ident.clone())),
            _ => None,
        })
        .collect()
}

#[derive(Clone, Debug, PartialEq)]
pub enum Content {
    Raw(Vec<u8>),
    Rendered(BTreeMap<String, (Ty, String)>),
}

/// The tree the model expects after all phases (all calls expected to succeed are applied).
/// Returns `None` if some call is expected to fail half-way (partial effects are legal and
/// order dependent; the C17 oracle deals with those itself).
pub fn expected_tree(plan: &Plan, model: &Model) -> Option<BTreeMap<String, Content>> {
    let mut tree: BTreeMap<String, Content> = plan
        .cfg
        .initial
        .iter()
        .map(|f| (f.path.clone(), Content::Raw(f.bytes.clone().into_bytes())))
        .collect();
    let mut touched: BTreeSet<String> = BTreeSet::new();
    for phase in &plan.phases {
        if phase.fresh_process {
            touched.clear();
        }
        for op in phase.threads.iter().flatten() {
            match op_adds(model, op) {
                Ok(adds) => {
                    for (file, ident, ty, base) in adds {
                        if touched.insert(file.clone()) {
                            tree.insert(file.clone(), Content::Rendered(BTreeMap::new()));
                        }
                        if let Some(Content::Rendered(m)) = tree.get_mut(&file) {
                            m.entry(ident).or_insert((ty, base));
                        }
                    }
                }
                Err(ExpectErr::NotExportable) => {}
                Err(ExpectErr::AboveRoot) => {
                    if !matches!(op, Op::Export { .. }) {
                        return None;
                    }
                }
            }
        }
    }
    Some(tree)
}

fn show(bytes: &[u8]) -> String {
    String::from_utf8_lossy(bytes).into_owned()
}

/// Results versus the model's expectation of success / failure.
pub fn check_results(plan: &Plan, model: &Model, exec: &Exec, faults_possible: bool) -> Vec<Violation> {
    let mut v = vec![];
    for c in &exec.calls {
        let expect = op_adds(model, &c.op);
        let label = format!(
            "phase {} thread {} call {} {}({})",
            c.phase,
            c.thread,
            c.idx,
            c.op.kind(),
            model.info(c.op.ty()).label
        );
        match (&expect, &c.result) {
            (_, CallResult::Panic { msg }) => v.push(Violation::new(
                "panic",
                &["C17", &plan.property],
                None,
                format!("{label} panicked: {msg}"),
            )),
            (Ok(_), CallResult::Err { kind, msg }) if !faults_possible => v.push(Violation::new(
                "unexpected-error",
                &[&plan.property],
                None,
                format!("{label} returned Err({kind}): {msg}, but nothing stands in its way"),
            )),
            (Err(e), r) if r.is_ok() => v.push(Violation::new(
                "missing-error",
                &["C17"],
                None,
                format!("{label} returned Ok although the model says it cannot be carried out ({e:?})"),
            )),
            _ => {}
        }
    }
    v
}

/// Final tree versus the model.
pub fn check_final_tree(plan: &Plan, model: &Model, exec: &Exec, no_render: bool) -> Vec<Violation> {
    let mut v = vec![];
    let Some(tree) = expected_tree(plan, model) else {
        return v;
    };
    let tags = ["C05", "C06", "C13"];
    for (file, want) in &tree {
        let got = exec.final_files.get(file);
        match (want, got) {
            (_, None) => v.push(Violation::new(
                "final-tree",
                &["C05", "C06", "C13", "C11"],
                Some(file),
                format!("file is missing from the final tree (expected {})", match want {
                    Content::Raw(_) => "the untouched initial file".to_string(),
                    Content::Rendered(m) => format!("declarations {:?}", m.keys().collect::<Vec<_>>()),
                }),
            )),
            (Content::Raw(b), Some(g)) => {
                if b != g {
                    v.push(Violation::new(
                        "bystander-changed",
                        &["C06", "C11"],
                        Some(file),
                        format!("a file no export targets was modified\n--- before ---\n{}\n--- after ---\n{}", show(b), show(g)),
                    ));
                }
            }
            (Content::Rendered(m), Some(g)) => {
                let ok = if no_render {
                    match std::str::from_utf8(g).ok().and_then(|t| tsparse::parse_module(t).ok()) {
                        Some(module) => {
                            let names: BTreeSet<&String> = module.decls.iter().map(|d| &d.name).collect();
                            names == m.keys().collect()
                        }
                        None => false,
                    }
                } else {
                    model.matches_render(m, g)
                };
                // C04's half of the same check: the file declares exactly the types exported to it
                if let Some(module) = std::str::from_utf8(g).ok().and_then(|t| tsparse::parse_module(t).ok()) {
                    let names: BTreeSet<&String> = module.decls.iter().map(|d| &d.name).collect();
                    let want: BTreeSet<&String> = m.keys().collect();
                    if names != want {
                        v.push(Violation::new(
                            "declared-set",
                            &["C04"],
                            Some(file),
                            format!(
                                "the file declares {:?} but the types exported to it are {:?}\n--- contents ---\n{}",
                                names,
                                want,
                                show(g)
                            ),
                        ));
                    }
                }
                if !ok {
                    v.push(Violation::new(
                        "final-tree",
                        &tags,
                        Some(file),
                        format!(
                            "final contents differ from the canonical rendering of {:?}\n--- expected ---\n{}\n--- actual ---\n{}",
                            m.keys().collect::<Vec<_>>(),
                            model.render(m, model::Order::Ident),
                            show(g)
                        ),
                    ));
                }
            }
        }
    }
    for file in exec.final_files.keys() {
        if !tree.contains_key(file) {
            v.push(Violation::new(
                "unexpected-file",
                &["C11", "C06"],
                Some(file),
                "a file exists that no export should have written".to_string(),
            ));
        }
    }
    v
}

/// Paths the call wrote to and that still carry that data when the call returns: a file that
/// the same call renamed away or removed again (a temporary file of an atomic replace) does not
/// count, the rename target does.
fn call_writes<'a>(exec: &'a Exec, c: &CallRecord) -> BTreeSet<&'a str> {
    let mut set: BTreeSet<&'a str> = BTreeSet::new();
    let mut open_names: Vec<&'a str> = vec![];
    for e in exec.log.iter().filter(|e| e.seq > c.seq_start && e.seq < c.seq_end && e.thread == c.thread && e.errno == 0) {
        match e.op {
            FsOp::OpenTrunc | FsOp::OpenRw | FsOp::Write | FsOp::SetLen => {
                set.insert(e.key.as_str());
                open_names.push(e.key.as_str());
            }
            FsOp::Rename => {
                // whatever was written last under another name now lives here; names written in
                // this call that no longer exist afterwards are dropped below
                set.insert(e.key.as_str());
            }
            FsOp::Unlink => {
                set.remove(e.key.as_str());
            }
            _ => {}
        }
    }
    // names that vanished within the call (renamed away)
    let renamed_to: BTreeSet<&str> = exec
        .log
        .iter()
        .filter(|e| e.seq > c.seq_start && e.seq < c.seq_end && e.thread == c.thread && e.errno == 0 && e.op == FsOp::Rename)
        .map(|e| e.key.as_str())
        .collect();
    if !renamed_to.is_empty() {
        let after = c.snapshot.as_ref();
        set.retain(|k| renamed_to.contains(k) || after.map(|t| t.contains_key(*k)).unwrap_or_else(|| exec.final_files.contains_key(*k)));
    }
    set
}

/// C11: exact mutation set per call, from the operation log.
pub fn check_c11(plan: &Plan, model: &Model, exec: &Exec) -> Vec<Violation> {
    let mut v = vec![];
    let bystanders: BTreeSet<&str> = plan
        .cfg
        .initial
        .iter()
        .filter(|f| f.bystander)
        .map(|f| f.path.as_str())
        .collect();
    for e in &exec.log {
        if matches!(e.op, FsOp::OpenTrunc | FsOp::OpenRw | FsOp::Write) && bystanders.contains(e.key.as_str()) {
            v.push(Violation::new(
                "bystander-opened",
                &["C11"],
                Some(&e.key),
                format!("an unrelated file was opened for writing (log seq {})", e.seq),
            ));
        }
    }
    for c in &exec.calls {
        if !matches!(c.op, Op::Export { .. } | Op::ExportAll { .. } | Op::ExportAllTo { .. }) {
            if let (Op::Paths { ty }, CallResult::Text { text }) = (&c.op, &c.result) {
                // the path a type reports for itself is the path that gets written
                let (rel, def) = text.split_once('|').unwrap_or(("", ""));
                let i = model.info(*ty);
                if i.file.as_deref().unwrap_or("") != rel {
                    v.push(Violation::new(
                        "reported-path",
                        &["C11"],
                        None,
                        format!("{}: output_path() = {rel:?}, documented form gives {:?}", i.label, i.file),
                    ));
                }
                if let Some(Ok(loc)) = model.location(*ty, &model.default_base) {
                    if model::norm(&model.cwd, def).ok().as_deref() != Some(loc.as_str()) {
                        v.push(Violation::new(
                            "reported-path",
                            &["C11"],
                            None,
                            format!("{}: default_output_path() = {def:?}, expected a spelling of {loc:?}", i.label),
                        ));
                    }
                }
            }
            continue;
        }
        let Ok(adds) = op_adds(model, &c.op) else {
            continue;
        };
        if !c.result.is_ok() {
            continue;
        }
        let expected: BTreeSet<&str> = adds.iter().map(|a| a.0.as_str()).collect();
        let label = format!("{}({})", c.op.kind(), model.info(c.op.ty()).label);
        for key in call_writes(exec, c) {
            if !expected.contains(key) {
                v.push(Violation::new(
                    "wrote-outside-set",
                    &["C11"],
                    Some(key),
                    format!("{label} wrote to a path that is not the location of the root or of a dependency; expected set {expected:?}"),
                ));
            }
        }
        let mut ancestors: BTreeSet<String> = BTreeSet::new();
        for f in &expected {
            let mut d = model::dir_of(f);
            loop {
                ancestors.insert(d.clone());
                if d == "/" {
                    break;
                }
                d = model::dir_of(&d);
            }
        }
        for e in exec.log.iter().filter(|e| e.seq > c.seq_start && e.seq < c.seq_end && e.thread == c.thread) {
            if e.op == FsOp::Mkdir && e.errno == 0 && !ancestors.contains(&e.key) {
                v.push(Violation::new(
                    "mkdir-outside-set",
                    &["C11"],
                    Some(&e.key),
                    format!("{label} created a directory that is not an ancestor of any file it is to write"),
                ));
            }
        }
        // after the call every expected file exists and declares the name
        let tree = c.snapshot.as_ref().or(if plan.phases[c.phase].threads.len() > 1 || plan.phases[c.phase].queue_workers > 1 { Some(&exec.final_files) } else { None });
        if let Some(tree) = tree {
            // a later fresh process may legitimately have truncated files: only check the
            // final tree for calls of the last phase
            if c.snapshot.is_none() && c.phase + 1 != plan.phases.len() {
                continue;
            }
            for (file, ident, _, _) in &adds {
                // a file that exists but does not parse is reported by the C04 oracles
                let declared = match tree.get(file) {
                    None => false,
                    Some(b) => match std::str::from_utf8(b).ok().and_then(|t| tsparse::parse_module(t).ok()) {
                        Some(m) => m.decls.iter().any(|d| &d.name == ident),
                        None => true,
                    },
                };
                if !declared {
                    v.push(Violation::new(
                        "not-written",
                        &["C11"],
                        Some(file),
                        format!("after {label} returned Ok, {file} does not declare {ident}"),
                    ));
                }
            }
        }
    }
    v
}

/// C05 idempotence: a call that adds nothing new must not write at all.
pub fn check_idempotence(plan: &Plan, model: &Model, exec: &Exec) -> Vec<Violation> {
    let mut v = vec![];
    for (ci, c) in exec.calls.iter().enumerate() {
        if !c.result.is_ok() {
            continue;
        }
        let Ok(adds) = op_adds(model, &c.op) else {
            continue;
        };
        if adds.is_empty() {
            continue;
        }
        // everything this call adds was completed by calls that ended before it started,
        // in the same simulated process
        let first_of_process = (0..=c.phase)
            .rev()
            .find(|p| plan.phases[*p].fresh_process)
            .unwrap_or(0);
        let mut done: BTreeSet<(String, String)> = BTreeSet::new();
        for d in exec.calls[..ci].iter().chain(exec.calls[ci + 1..].iter()) {
            if d.phase < first_of_process || d.phase > c.phase || d.seq_end > c.seq_start || !d.result.is_ok() {
                continue;
            }
            if let Ok(a) = op_adds(model, &d.op) {
                done.extend(a.into_iter().map(|x| (x.0, x.1)));
            }
        }
        if adds.iter().all(|a| done.contains(&(a.0.clone(), a.1.clone()))) {
            let writes = call_writes(exec, c);
            if !writes.is_empty() {
                v.push(Violation::new(
                    "idempotence",
                    &["C05"],
                    writes.iter().next().copied(),
                    format!(
                        "{}({}) re-exports only types already in their files, yet wrote to {writes:?}",
                        c.op.kind(),
                        model.info(c.op.ty()).label
                    ),
                ));
            }
        }
    }
    v
}

/// C03 + C08 over a tree: `written` = files this process wrote (only those are inspected);
/// `closed` = the exports were with dependencies, so every import must resolve to a written file.
pub fn check_imports(model: &Model, tree: &BTreeMap<String, Vec<u8>>, written: &BTreeSet<String>, closed: bool, when: &str) -> (Vec<Violation>, BTreeSet<String>) {
    let mut v = vec![];
    let mut shapes = BTreeSet::new();
    let mut parsed: BTreeMap<&str, tsparse::Module> = BTreeMap::new();
    // written files that exist but do not parse are C04's business, not the import oracle's
    let mut unparseable: BTreeSet<&str> = BTreeSet::new();
    for f in written {
        match tree.get(f).map(|b| std::str::from_utf8(b).ok().and_then(|t| tsparse::parse_module(t).ok())) {
            Some(Some(m)) => {
                parsed.insert(f, m);
            }
            Some(None) => {
                unparseable.insert(f);
            }
            None => {}
        }
    }
    for (file, module) in &parsed {
        let declared: BTreeSet<&str> = module.decls.iter().map(|d| d.name.as_str()).collect();
        let mut imported: BTreeMap<&str, usize> = BTreeMap::new();
        let mut specs_seen: BTreeSet<&str> = BTreeSet::new();
        for imp in &module.imports {
            let spec = imp.spec.as_str();
            let mut bad = vec![];
            if !(spec.starts_with("./") || spec.starts_with("../")) {
                bad.push("is not relative (must start with ./ or ../)");
            }
            if spec.contains('\\') {
                bad.push("contains a backslash");
            }
            if model.esm {
                if !spec.ends_with(".js") {
                    bad.push("does not end in .js although ES-module imports are enabled");
                }
            }
            // (without import-esm a specifier may still end in `.js` - a file called
            // `codec.js.ts` is imported as "./codec.js"; whether the suffix is right is decided
            // by resolving the specifier below)
            for b in &bad {
                v.push(Violation::new("specifier-form", &["C08"], Some(file), format!("{when}: specifier {spec:?} {b}")));
            }
            if !specs_seen.insert(spec) {
                v.push(Violation::new("duplicate-import", &["C03", "C05"], Some(file), format!("{when}: two import statements for {spec:?}")));
            }
            for n in &imp.names {
                *imported.entry(n.as_str()).or_insert(0) += 1;
            }
            let Some(target) = model::resolve_specifier(file, spec, model.esm) else {
                v.push(Violation::new("specifier-resolve", &["C08"], Some(file), format!("{when}: specifier {spec:?} does not resolve")));
                continue;
            };
            // shape of the pair, for coverage
            let rel = model::relative(&model::dir_of(file), &target);
            let ups = rel.split('/').filter(|c| *c == "..").count();
            let downs = rel.split('/').filter(|c| *c != "..").count();
            shapes.insert(format!("up{ups}/down{downs}{}", if rel.matches('.').count() > rel.matches("..").count() * 2 + 1 { "/dotted" } else { "" }));
            if target == **file {
                v.push(Violation::new("self-import", &["C03", "C08"], Some(file), format!("{when}: the file imports from itself via {spec:?}")));
                continue;
            }
            if !closed {
                continue;
            }
            if unparseable.contains(target.as_str()) {
                continue;
            }
            match parsed.get(target.as_str()) {
                None => {
                    let exists = tree.contains_key(&target);
                    v.push(Violation::new(
                        "import-target",
                        &["C08", "C03"],
                        Some(&target),
                        format!(
                            "{when}: {file} imports {:?} from {spec:?}, which resolves to {target}, which {}",
                            imp.names,
                            if exists { "this export did not write" } else { "does not exist" }
                        ),
                    ));
                }
                Some(tm) => {
                    for n in &imp.names {
                        if !tm.decls.iter().any(|d| &d.name == n) {
                            v.push(Violation::new(
                                "import-target",
                                &["C08", "C03"],
                                Some(&target),
                                format!("{when}: {file} imports {n} from {spec:?} = {target}, which does not declare it"),
                            ));
                        }
                    }
                }
            }
        }
        for (n, k) in &imported {
            if *k > 1 {
                v.push(Violation::new("duplicate-import", &["C03", "C05"], Some(file), format!("{when}: {n} is imported {k} times")));
            }
            if declared.contains(n) {
                v.push(Violation::new("import-of-local", &["C03"], Some(file), format!("{when}: {n} is both declared in the file and imported")));
            }
        }
        let mut used: BTreeSet<&str> = BTreeSet::new();
        for d in &module.decls {
            for r in &d.refs {
                used.insert(r.as_str());
                // a type exported without its dependencies may name same-file neighbours that
                // were not exported (yet); the property speaks about exports with dependencies
                if closed && !declared.contains(r.as_str()) && !imported.contains_key(r.as_str()) {
                    v.push(Violation::new(
                        "unresolved-name",
                        &["C03"],
                        Some(file),
                        format!("{when}: declaration {} uses {r}, which is neither declared in the file nor imported", d.name),
                    ));
                }
            }
        }
        for n in imported.keys() {
            if !used.contains(n) {
                v.push(Violation::new("unused-import", &["C03"], Some(file), format!("{when}: {n} is imported but not used")));
            }
        }
    }
    (v, shapes)
}

/// C04 layout rules on raw text (default formatting only) for every file written.
pub fn check_layout(tree: &BTreeMap<String, Vec<u8>>, written: &BTreeSet<String>, formatted: bool, when: &str) -> Vec<Violation> {
    let mut v = vec![];
    for f in written {
        let Some(bytes) = tree.get(f) else { continue };
        let Ok(text) = std::str::from_utf8(bytes) else {
            v.push(Violation::new("parse", &["C04"], Some(f), format!("{when}: not UTF-8")));
            continue;
        };
        let mut bad = vec![];
        if !text.starts_with(model::NOTE) {
            bad.push("does not begin with the generated-file notice".to_string());
        }
        if !text.ends_with('\n') {
            bad.push("does not end with a newline".to_string());
        }
        match tsparse::parse_module(text) {
            Err(e) => bad.push(format!("does not parse: {e}")),
            Ok(m) => {
                if !m.imports_first {
                    bad.push("an import statement follows a declaration".to_string());
                }
                if m.decls.is_empty() {
                    bad.push("declares nothing".to_string());
                }
                if !formatted {
                    if text.ends_with("\n\n") {
                        bad.push("ends with more than one newline".to_string());
                    }
                    // imports, one blank line, declarations separated by single blank lines
                    let body = &text[model::NOTE.len().min(text.len())..];
                    let lines: Vec<&str> = body.split('\n').collect();
                    let n_imports = lines.iter().take_while(|l| l.starts_with("import type ")).count();
                    if n_imports != m.imports.len() {
                        bad.push("import statements are not one per line directly after the notice".to_string());
                    } else if lines.get(n_imports) != Some(&"") {
                        bad.push("no blank line between the imports and the first declaration".to_string());
                    }
                    // text outside declarations and their comments must be whitespace only
                    let mut covered = vec![false; text.len()];
                    for d in &m.decls {
                        for c in covered.iter_mut().take(d.span.1).skip(d.span.0) {
                            *c = true;
                        }
                    }
                    let _ = covered;
                }
            }
        }
        for b in bad {
            v.push(Violation::new("layout", &["C04"], Some(f), format!("{when}: {b}\n--- contents ---\n{text}")));
        }
    }
    v
}

/// `export_to_string()` results versus the model's rendering of the singleton file.
pub fn check_strings(plan: &Plan, model: &Model, exec: &Exec) -> Vec<Violation> {
    let mut v = vec![];
    for c in &exec.calls {
        if let (Op::ToString { ty }, CallResult::Text { text }) = (&c.op, &c.result) {
            let i = model.info(*ty);
            let Ok(base) = model.norm_base(&model.default_base) else { continue };
            let mut m = BTreeMap::new();
            m.insert(i.ident.clone(), (*ty, base));
            let want = model.render(&m, model::Order::Ident);
            if cfg!(feature = "format") {
                continue;
            }
            if &want != text {
                v.push(Violation::new(
                    "export-to-string",
                    &["C13", &plan.property],
                    None,
                    format!("{}::export_to_string() differs from the canonical text\n--- expected ---\n{want}\n--- actual ---\n{text}", i.label),
                ));
            }
        }
    }
    v
}

/// Compare two executions that must agree (canonical run, double execution, retry).
pub fn diff_trees(a: &BTreeMap<String, Vec<u8>>, b: &BTreeMap<String, Vec<u8>>, what: &str, tags: &[&str]) -> Vec<Violation> {
    let mut v = vec![];
    let keys: BTreeSet<&String> = a.keys().chain(b.keys()).collect();
    for k in keys {
        match (a.get(k), b.get(k)) {
            (Some(x), Some(y)) if x == y => {}
            (x, y) => v.push(Violation::new(
                "tree-diff",
                tags,
                Some(k),
                format!(
                    "{what}: file differs\n--- this run ---\n{}\n--- reference run ---\n{}",
                    x.map(|b| show(b)).unwrap_or_else(|| "<absent>".into()),
                    y.map(|b| show(b)).unwrap_or_else(|| "<absent>".into())
                ),
            )),
        }
    }
    v
}
