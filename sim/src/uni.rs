//! Type universes: every type here is a real `impl TS` driven through ts-rs's real export code.
//!
//! * `Syn<N>` — hand-implemented, table-driven: arbitrary graphs, names, paths, bodies.
//! * the derived corpus (`corpus.rs`) — `#[derive(TS)]` types whose placement and TypeScript
//!   name are run-time expressions reading the same table.

use std::{
    path::{Path, PathBuf},
    sync::{Arc, RwLock},
};

use serde::{Deserialize, Serialize};
use ts_rs::{ExportError, TypeVisitor, TS};

/// Index of a type in the universe: `0..SYN_SLOTS` are `Syn<N>`, `DER_BASE..` are handles of the
/// derived corpus.
pub type Ty = u16;
pub const SYN_SLOTS: usize = 48;
pub const DER_BASE: Ty = 100;

#[derive(Clone, Debug, Default, Serialize, Deserialize, PartialEq)]
pub struct SynSpec {
    pub ident: String,
    /// relative output path; `None` = not exportable (then `ident` is its inline name)
    pub path: Option<String>,
    /// TypeScript type expression on the right-hand side of the declaration
    pub body: String,
    /// slots of the `Syn` types the body names, in declared visit order
    pub deps: Vec<usize>,
}

/// The per-run table read by every type in the universe.
#[derive(Clone, Debug, Default, Serialize, Deserialize, PartialEq)]
pub struct Table {
    /// slot -> spec (slots not in use hold a default spec)
    pub syn: Vec<SynSpec>,
    /// derived type id -> value of its `export_to` expression
    pub der_paths: Vec<String>,
    /// derived type id -> value of its `rename` expression
    pub der_names: Vec<String>,
}

static TABLE: RwLock<Option<Arc<Table>>> = RwLock::new(None);

pub fn install_table(t: Arc<Table>) {
    *TABLE.write().unwrap() = Some(t);
}

pub fn table() -> Arc<Table> {
    TABLE
        .read()
        .unwrap()
        .clone()
        .expect("universe table not installed")
}

/// `export_to` expression of derived type `i`.
pub fn path_of(i: usize) -> String {
    table().der_paths[i].clone()
}

/// `rename` expression of derived type `i`.
pub fn name_of(i: usize) -> String {
    table().der_names[i].clone()
}

/// Documentation variants of `Syn<N>`, chosen by `N % 8` (a `const` cannot read the table).
/// Formatted exactly as the derive formats `///` and `/** */` comments.
pub const SYN_DOCS: [Option<&str>; 8] = [
    None,
    Some("/**\n * One line of documentation.\n */\n"),
    Some("/**\n * First line\n * second line\n *\n * after an empty doc line\n */\n"),
    Some("/**\n     * Block comment\n     * without empty line\n     */\n"),
    // a block doc comment containing an empty line
    Some("/**\n     * Block comment\n\n     * with an empty line\n     */\n"),
    Some("/**\n * Mentions export type Fake = 1; in prose\n */\n"),
    Some("/**\n * import type { X } from \"./x\"; appears in this text\n */\n"),
    // a block comment with an example at column 0 that looks like the declaration of a type the
    // generator puts into the same file under that very name
    Some("/**\nexport type Sibling = number; (an example inside a block comment)\n*/\n"),
];

pub struct Syn<const N: usize>;

fn spec(n: usize) -> SynSpec {
    table().syn.get(n).cloned().unwrap_or_default()
}

impl<const N: usize> TS for Syn<N> {
    type WithoutGenerics = Self;
    type OptionInnerType = Self;
    const DOCS: Option<&'static str> = SYN_DOCS[N % 8];

    fn ident() -> String {
        spec(N).ident
    }
    fn name() -> String {
        spec(N).ident
    }
    fn decl() -> String {
        let s = spec(N);
        format!("type {} = {};", s.ident, s.body)
    }
    fn decl_concrete() -> String {
        Self::decl()
    }
    fn inline() -> String {
        spec(N).body
    }
    fn inline_flattened() -> String {
        spec(N).body
    }
    fn output_path() -> Option<PathBuf> {
        spec(N).path.map(PathBuf::from)
    }
    fn visit_dependencies(v: &mut impl TypeVisitor)
    where
        Self: 'static,
    {
        let deps = spec(N).deps;
        for i in ts_rs::verif_seam::visit_order(std::any::type_name::<Self>(), deps.len()) {
            visit_slot(deps[i], v);
        }
    }
}

macro_rules! slots {
    ($mac:ident) => {
        $mac! {
            0, 1, 2, 3, 4, 5, 6, 7, 8, 9, 10, 11, 12, 13, 14, 15, 16, 17, 18, 19, 20, 21, 22, 23,
            24, 25, 26, 27, 28, 29, 30, 31, 32, 33, 34, 35, 36, 37, 38, 39, 40, 41, 42, 43, 44,
            45, 46, 47
        }
    };
}

macro_rules! visit_match {
    ($($n:literal),*) => {
        fn visit_slot<V: TypeVisitor>(n: usize, v: &mut V) {
            match n {
                $($n => v.visit::<Syn<$n>>(),)*
                _ => panic!("no such Syn slot {n}"),
            }
        }
    };
}
slots!(visit_match);

/// Type-erased access to one concrete `impl TS`.
pub struct Handle {
    pub label: String,
    pub type_name: &'static str,
    pub export: fn() -> Result<(), ExportError>,
    pub export_all: fn() -> Result<(), ExportError>,
    pub export_all_to: fn(&Path) -> Result<(), ExportError>,
    pub export_to_string: fn() -> Result<String, ExportError>,
    pub ident: fn() -> String,
    pub name: fn() -> String,
    pub decl: fn() -> String,
    pub decl_concrete: fn() -> String,
    pub inline: fn() -> String,
    pub docs: Option<&'static str>,
    pub output_path: fn() -> Option<PathBuf>,
    pub default_output_path: fn() -> Option<PathBuf>,
    pub dependencies: fn() -> Vec<(String, PathBuf)>,
}

pub fn handle<T: TS + 'static>(label: &str) -> Handle {
    Handle {
        label: label.to_string(),
        type_name: std::any::type_name::<T>(),
        export: || T::export(),
        export_all: || T::export_all(),
        export_all_to: |p| T::export_all_to(p),
        export_to_string: || T::export_to_string(),
        ident: || T::ident(),
        name: || T::name(),
        decl: || T::decl(),
        decl_concrete: || T::decl_concrete(),
        inline: || T::inline(),
        docs: T::DOCS,
        output_path: || T::output_path(),
        default_output_path: || T::default_output_path(),
        dependencies: || {
            T::dependencies()
                .into_iter()
                .map(|d| (d.ts_name, d.output_path))
                .collect()
        },
    }
}

macro_rules! syn_handles {
    ($($n:literal),*) => {
        fn syn_handle(n: usize) -> Handle {
            match n {
                $($n => handle::<Syn<$n>>(concat!("Syn<", $n, ">")),)*
                _ => panic!("no such Syn slot {n}"),
            }
        }
    };
}
slots!(syn_handles);

/// Handle of any type of the universe.
pub fn handle_of(ty: Ty) -> Handle {
    if (ty as usize) < SYN_SLOTS {
        syn_handle(ty as usize)
    } else {
        crate::corpus::der_handle((ty - DER_BASE) as usize)
    }
}
