//! Delta debugging over the explicit plan: a candidate is kept iff it still fails the same
//! oracle of the same property.

use crate::{
    check::Case,
    exec::Violation,
    plan::{Faults, Plan},
    sched::Chooser,
    uni::{SynSpec, SYN_SLOTS},
};

/// Evaluate a case in a *fresh OS process* (so that nothing the code under test keeps in
/// process-wide state can leak in from earlier runs of this worker): the violations it reports
/// for `prop`, and the schedule it took.
pub fn fresh_eval(prop: &str, case: &Case) -> Option<(Vec<Violation>, Vec<Vec<u8>>)> {
    use std::io::Write;
    let exe = std::env::current_exe().ok()?;
    let mut child = std::process::Command::new(exe)
        .args(["eval", prop])
        .stdin(std::process::Stdio::piped())
        .stdout(std::process::Stdio::piped())
        .stderr(std::process::Stdio::null())
        .spawn()
        .ok()?;
    child.stdin.take()?.write_all(serde_json::to_string(case).ok()?.as_bytes()).ok()?;
    let out = child.wait_with_output().ok()?;
    let v: serde_json::Value = serde_json::from_slice(&out.stdout).ok()?;
    if v["capped"].as_bool().unwrap_or(true) || !v["harness_error"].is_null() {
        return None;
    }
    let own: Vec<Violation> = serde_json::from_value(v["own"].clone()).ok()?;
    let traces: Vec<Vec<u8>> = serde_json::from_value(v["traces"].clone()).ok()?;
    Some((own, traces))
}

fn fails(prop: &str, case: &Case, target: &Violation) -> Option<Violation> {
    crate::check::PROGRESS.fetch_add(1, std::sync::atomic::Ordering::Relaxed);
    // a double-execution difference recurs with high probability only: a few attempts
    let attempts = if target.oracle == "double-exec" { 4 } else { 1 };
    for _ in 0..attempts {
        let (own, _) = fresh_eval(prop, case)?;
        if let Some(v) = own.into_iter().find(|v| v.oracle == target.oracle) {
            return Some(v);
        }
    }
    None
}

fn drop_op(case: &Case, phase: usize, thread: usize, op: usize) -> Option<Case> {
    let mut c = case.clone();
    if let Case::Faulted { thread: ft, idx, .. } = &mut c {
        if phase == 0 && thread == *ft {
            if op == *idx {
                return None;
            }
            if op < *idx {
                *idx -= 1;
            }
        }
    }
    let p = c.plan_mut();
    p.phases[phase].threads[thread].remove(op);
    Some(c)
}

fn candidates(case: &Case) -> Vec<Case> {
    let mut out = vec![];
    let plan = case.plan();
    let faulted = !matches!(case, Case::Plain { .. });
    // drop phases
    if plan.phases.len() > 1 && !faulted {
        for i in 0..plan.phases.len() {
            let mut c = case.clone();
            c.plan_mut().phases.remove(i);
            if let Some(first) = c.plan_mut().phases.first_mut() {
                first.fresh_process = true;
            }
            out.push(c);
        }
    }
    // drop threads
    for (pi, ph) in plan.phases.iter().enumerate() {
        if ph.queue_workers > 1 {
            let mut c = case.clone();
            c.plan_mut().phases[pi].queue_workers -= 1;
            out.push(c);
        }
        if ph.threads.len() > 1 {
            for ti in 0..ph.threads.len() {
                if let Case::Faulted { thread, .. } = case {
                    if *thread == ti {
                        continue;
                    }
                }
                let mut c = case.clone();
                c.plan_mut().phases[pi].threads.remove(ti);
                if let Case::Faulted { thread, .. } = &mut c {
                    if ti < *thread {
                        *thread -= 1;
                    }
                }
                out.push(c);
            }
        }
    }
    // drop single calls
    for (pi, ph) in plan.phases.iter().enumerate() {
        for (ti, t) in ph.threads.iter().enumerate() {
            if t.len() > 1 || ph.threads.len() > 1 {
                for oi in 0..t.len() {
                    if let Some(c) = drop_op(case, pi, ti, oi) {
                        if c.plan().n_ops() > 0 {
                            out.push(c);
                        }
                    }
                }
            }
        }
    }
    // simplify configuration
    if plan.cfg.faults != (Faults { seed: plan.cfg.faults.seed, ..Default::default() }) {
        let mut c = case.clone();
        let s = plan.cfg.faults.seed;
        c.plan_mut().cfg.faults = Faults { seed: s, ..Default::default() };
        out.push(c);
    }
    if plan.visit_seed != 0 {
        let mut c = case.clone();
        c.plan_mut().visit_seed = 0;
        out.push(c);
    }
    if plan.double_exec {
        let mut c = case.clone();
        c.plan_mut().double_exec = false;
        out.push(c);
    }
    for i in 0..plan.cfg.initial.len() {
        let mut c = case.clone();
        c.plan_mut().cfg.initial.remove(i);
        out.push(c);
    }
    // simpler schedules: sequential, then shorter scripts
    for (pi, ph) in plan.phases.iter().enumerate() {
        if let Chooser::Scripted { script } = &ph.chooser {
            if !script.is_empty() {
                for keep in [0, script.len() / 2, script.len() - 1] {
                    let mut c = case.clone();
                    c.plan_mut().phases[pi].chooser = Chooser::Scripted { script: script[..keep].to_vec() };
                    out.push(c);
                }
            }
        }
    }
    out
}

/// Reset Syn slots that no call can reach, so the replay file only carries what matters.
fn prune_table(plan: &mut Plan) {
    let model = crate::exec::model_of(plan);
    for s in 0..SYN_SLOTS {
        if !model.infos.contains_key(&(s as u16)) {
            plan.table.syn[s] = SynSpec::default();
        }
    }
}

pub fn minimise(prop: &str, case: &Case, target: &Violation, traces: &[Vec<u8>]) -> (Case, Violation) {
    let mut best = case.clone();
    let mut best_v = target.clone();
    // pin the schedule that was actually taken, so that later deletions replay it
    {
        let mut pinned = best.clone();
        for (pi, ph) in pinned.plan_mut().phases.iter_mut().enumerate() {
            if ph.threads.len() > 1 || ph.queue_workers > 1 {
                if let Some(t) = traces.get(pi) {
                    ph.chooser = Chooser::Scripted { script: t.clone() };
                }
            }
        }
        if let Some(v) = fails(prop, &pinned, target) {
            best = pinned;
            best_v = v;
        }
    }
    let mut budget = 400;
    loop {
        let mut improved = false;
        for cand in candidates(&best) {
            if budget == 0 {
                break;
            }
            budget -= 1;
            if let Some(v) = fails(prop, &cand, target) {
                best = cand;
                best_v = v;
                improved = true;
                break;
            }
        }
        if !improved || budget == 0 {
            break;
        }
    }
    let unpruned = best.clone();
    prune_table(best.plan_mut());
    // the pruned case must still fail the same way; otherwise keep the unpruned one
    match fails(prop, &best, target) {
        Some(v) => (best, v),
        None => (unpruned, best_v),
    }
}
