//! Derived corpus: `#[derive(TS)]` types (the macro's own declaration, dependency and path code).
//! Most take their placement and TypeScript name from run-time expressions reading the per-run
//! table, a few use literal attributes as ordinary user code does.
//!
//! The manifest at the bottom is hand-written ground truth: for every concrete handle, which
//! exportable types its declaration names (what must be imported) and which types an export of
//! it must reach. It is *not* derived from the macro output.

#![allow(dead_code, non_camel_case_types)]

use std::collections::HashMap;

use ts_rs::TS;

use crate::uni::{handle, name_of as n, path_of as p, Handle};

// ---- family A: plain references through containers, self-reference -------------------------

#[derive(TS)]
#[ts(export_to = p(0), rename = n(0))]
pub struct A0 {
    pub a: A1,
    pub b: Vec<A2>,
    pub c: Option<A3>,
    pub d: HashMap<String, A2>,
}

#[derive(TS)]
#[ts(export_to = p(1), rename = n(1))]
pub struct A1 {
    pub x: i32,
    pub inner: A3,
}

#[derive(TS, Clone)]
#[ts(export_to = p(2), rename = n(2))]
pub struct A2(pub String);

#[derive(TS)]
#[ts(export_to = p(3), rename = n(3))]
pub enum A3 {
    X,
    Y { z: A2 },
    W(Box<A3>),
}

// ---- family G: generics, several instantiations, parameter default ------------------------

#[derive(TS)]
#[ts(export_to = p(4), rename = n(4))]
pub struct G<T> {
    pub v: T,
    pub w: Vec<T>,
}

#[derive(TS)]
#[ts(export_to = p(5), rename = n(5))]
pub struct H<T = A2> {
    pub t: T,
    pub k: A1,
}

#[derive(TS)]
#[ts(export_to = p(6), rename = n(6))]
pub struct UseG {
    pub a: G<A1>,
    pub b: G<A2>,
    pub c: G<G<A3>>,
    pub h: H,
}

// ---- family I: inline / flatten / as / type ------------------------------------------------

#[derive(TS)]
#[ts(export_to = p(7), rename = n(7))]
pub struct F1 {
    pub p: A2,
    pub q: i32,
}

#[derive(TS)]
#[ts(export_to = p(8), rename = n(8))]
pub struct I0 {
    #[ts(inline)]
    pub a: A1,
    #[ts(flatten)]
    pub b: F1,
}

#[derive(TS)]
#[ts(export_to = p(9), rename = n(9))]
pub struct I1 {
    #[ts(as = "A3")]
    pub a: i32,
    #[ts(type = "string")]
    pub b: A1,
}

#[derive(TS)]
#[ts(export_to = p(10), rename = n(10))]
pub struct I3 {
    #[ts(inline)]
    pub g: G<A2>,
    pub o: Option<Vec<F1>>,
}

// the same type both inlined / flattened and referred to by name, in either order
#[derive(TS)]
#[ts(export_to = p(20), rename = n(20))]
pub struct I4 {
    #[ts(inline)]
    pub a: A1,
    pub b: A1,
}

#[derive(TS)]
#[ts(export_to = p(21), rename = n(21))]
pub struct I5 {
    pub a: F1,
    #[ts(flatten)]
    pub b: F1,
}

#[derive(TS)]
#[ts(export_to = p(22), rename = n(22))]
pub struct I6 {
    pub h: G<A2>,
    #[ts(inline)]
    pub g: G<A2>,
}

// ---- family C: cycles ------------------------------------------------------------------------

#[derive(TS)]
#[ts(export_to = p(11), rename = n(11))]
pub struct C0 {
    pub next: Option<Box<C1>>,
    pub leaf: A2,
}

#[derive(TS)]
#[ts(export_to = p(12), rename = n(12))]
pub struct C1 {
    pub back: Vec<C0>,
    pub me: Option<Box<C1>>,
}

// ---- family D: documentation, multi-line declarations -------------------------------------

/// Documented struct.
///
/// Second paragraph mentions export type and import type.
#[derive(TS)]
#[ts(export_to = p(13), rename = n(13))]
pub struct D0 {
    /// field documentation
    pub a: A2,
    /** block field doc */
    pub b: i32,
}

/** Block documentation
 * over several lines
 */
#[derive(TS)]
#[ts(export_to = p(14), rename = n(14))]
pub enum D1 {
    /// variant documentation
    V1,
    V2 {
        /// inner field documentation
        f: D0,
    },
}

/**
 * Block documentation with

 * an empty line in it
 */
#[derive(TS)]
#[ts(export_to = p(15), rename = n(15))]
pub struct D2 {
    pub a: i32,
}

// ---- family E: enum representations, tuples, newtypes -------------------------------------

#[derive(TS)]
#[ts(export_to = p(16), rename = n(16), tag = "kind", content = "data")]
pub enum E0 {
    One(A1),
    Two { x: G<A2> },
    Three,
}

#[derive(TS)]
#[ts(export_to = p(17), rename = n(17))]
pub struct T0(pub A1, pub Vec<A3>);

#[derive(TS)]
#[ts(export_to = p(18), rename = n(18))]
pub struct N0(pub Option<A2>);

#[derive(TS)]
#[ts(rename = n(19))]
pub struct R0 {
    pub a: A2,
}

// ---- family K: the container zoo (dependencies reachable only through library impls) ------

#[derive(TS)]
#[ts(export_to = p(23), rename = n(23))]
pub struct K0 {
    pub a: Result<A1, A2>,
    pub b: (A1, Vec<A3>),
    pub c: [A2; 3],
    pub d: std::rc::Rc<A1>,
    pub e: std::sync::Arc<F1>,
}

#[derive(TS)]
#[ts(export_to = p(24), rename = n(24))]
pub struct K1 {
    pub f: std::collections::BTreeMap<String, A3>,
    pub g: std::collections::HashSet<A2>,
    pub h: std::collections::BTreeSet<A2>,
    pub i: std::ops::Range<A2>,
    pub j: std::cell::RefCell<A1>,
    pub k: std::sync::Mutex<F1>,
    pub l: std::marker::PhantomData<A2>,
    pub m: Option<Box<Vec<(A1, A2)>>>,
    pub n: &'static [A3],
    pub o: std::borrow::Cow<'static, A2>,
    pub q: std::ops::RangeInclusive<D0>,
}

#[derive(TS)]
#[ts(export_to = p(25), rename = n(25))]
pub struct K2<T> {
    pub a: Option<T>,
    pub b: Vec<(T, A2)>,
    pub c: HashMap<String, T>,
}

#[derive(TS)]
#[ts(export_to = p(26), rename = n(26))]
pub struct K3 {
    pub x: K2<A1>,
    pub y: [Option<K2<G<A3>>>; 2],
}

/// A container hidden behind a type alias.
pub type Items = Vec<F1>;

#[derive(TS)]
#[ts(export_to = p(27), rename = n(27))]
pub struct K5<T> {
    pub rows: T,
}

#[derive(TS)]
#[ts(export_to = p(28), rename = n(28))]
pub struct K4 {
    // longer than the tuple limit: rendered as Array<..>
    pub big: [A3; 65],
    pub alias: Items,
    // a container as the argument of a generic, by name and inlined
    pub page: K5<Vec<D0>>,
    #[ts(inline)]
    pub inl: K5<Vec<A1>>,
    pub exact: [C0; 64],
}

// ---- family P/V: one distinct leaf per dependency-collection site of the derive -------------
// (variant kinds x enum representations x inline / flatten / skip / as / type)

#[derive(TS)]
#[ts(export_to = p(29), rename = n(29))]
pub struct P0 {
    pub v: i32,
}

#[derive(TS)]
#[ts(export_to = p(30), rename = n(30))]
pub struct P1 {
    pub v: i32,
}

#[derive(TS)]
#[ts(export_to = p(31), rename = n(31))]
pub struct P2 {
    pub v: i32,
}

#[derive(TS)]
#[ts(export_to = p(32), rename = n(32))]
pub struct P3 {
    pub v: i32,
}

#[derive(TS)]
#[ts(export_to = p(33), rename = n(33))]
pub struct P4 {
    pub v: i32,
}

#[derive(TS)]
#[ts(export_to = p(34), rename = n(34))]
pub struct P5 {
    pub v: i32,
}

#[derive(TS)]
#[ts(export_to = p(35), rename = n(35))]
pub struct P6 {
    pub v: i32,
}

#[derive(TS)]
#[ts(export_to = p(36), rename = n(36))]
pub struct P7 {
    pub v: i32,
}

#[derive(TS)]
#[ts(export_to = p(37), rename = n(37))]
pub struct P8 {
    pub v: i32,
}

#[derive(TS)]
#[ts(export_to = p(38), rename = n(38))]
pub struct P9 {
    pub v: i32,
}

#[derive(TS)]
#[ts(export_to = p(39), rename = n(39))]
pub struct P10 {
    pub v: i32,
}

#[derive(TS)]
#[ts(export_to = p(40), rename = n(40))]
pub struct P11 {
    pub v: i32,
}

#[derive(TS)]
#[ts(export_to = p(41), rename = n(41))]
pub struct P12 {
    pub v: i32,
}

#[derive(TS)]
#[ts(export_to = p(42), rename = n(42))]
pub struct P13 {
    pub v: i32,
}

#[derive(TS)]
#[ts(export_to = p(43), rename = n(43))]
pub struct P14 {
    pub v: i32,
}

#[derive(TS)]
#[ts(export_to = p(44), rename = n(44))]
pub struct P15 {
    pub v: i32,
}

#[derive(TS)]
#[ts(export_to = p(45), rename = n(45))]
pub struct P16 {
    pub v: i32,
}

#[derive(TS)]
#[ts(export_to = p(46), rename = n(46))]
pub struct P17 {
    pub v: i32,
}

#[derive(TS)]
#[ts(export_to = p(47), rename = n(47))]
pub struct P18 {
    pub v: i32,
}

#[derive(TS)]
#[ts(export_to = p(48), rename = n(48))]
pub struct P19 {
    pub v: i32,
}

#[derive(TS)]
#[ts(export_to = p(49), rename = n(49))]
pub struct P4w {
    pub inner: P4,
}

#[derive(TS)]
#[ts(export_to = p(50), rename = n(50))]
pub struct P9w {
    pub k: P9,
}

#[derive(TS)]
#[ts(export_to = p(51), rename = n(51))]
pub struct P14w {
    pub z: P14,
}

#[derive(TS)]
#[ts(export_to = p(52), rename = n(52))]
pub struct P15w {
    pub q: P15,
}

#[derive(TS)]
#[ts(export_to = p(53), rename = n(53))]
pub struct P17w {
    pub r: P17,
}

#[derive(TS)]
#[ts(export_to = p(54), rename = n(54))]
pub struct P19w {
    pub s: P19,
}

#[derive(TS)]
#[ts(export_to = p(55), rename = n(55))]
pub enum V0 {
    A(P0),
    B(P1, Vec<P2>),
    C {
        x: P3,
        #[ts(inline)]
        y: P4w,
    },
    #[ts(skip)]
    D(P5),
    E(#[ts(type = "string")] P6),
    F(#[ts(as = "P7")] i32),
}

#[derive(TS)]
#[ts(export_to = p(56), rename = n(56), tag = "t")]
pub enum V1 {
    A { x: P8 },
    B(P9w),
    C,
}

#[derive(TS)]
#[ts(export_to = p(57), rename = n(57), untagged)]
pub enum V2 {
    A(P10),
    B { y: Option<P11> },
}

#[derive(TS)]
#[ts(export_to = p(58), rename = n(58), tag = "t", content = "c")]
pub enum V3 {
    A(P12, P13),
    B {
        #[ts(flatten)]
        f: P14w,
    },
}

#[derive(TS)]
#[ts(export_to = p(59), rename = n(59))]
pub struct V4(#[ts(inline)] pub P15w);

#[derive(TS)]
#[ts(export_to = p(60), rename = n(60))]
pub struct V5(pub P16, #[ts(inline)] pub P17w, #[ts(skip)] pub P18);

#[derive(TS)]
#[ts(export_to = p(61), rename = n(61), as = "P19w")]
pub struct V6 {
    pub ignored: P5,
}

// ---- family W: field-level inline and variant-level `as` inside tagged newtype variants ----

#[derive(TS)]
#[ts(export_to = p(62), rename = n(62), tag = "t", content = "c")]
pub enum W0 {
    A(#[ts(inline)] P4w),
}

#[derive(TS)]
#[ts(export_to = p(63), rename = n(63), tag = "t")]
pub enum W1 {
    A(#[ts(inline)] P9w),
}

#[derive(TS)]
#[ts(export_to = p(64), rename = n(64), tag = "t", content = "c")]
pub enum W2 {
    #[ts(as = "P0")]
    A(P1),
}

#[derive(TS)]
#[ts(export_to = p(65), rename = n(65), tag = "t")]
pub enum W5 {
    #[ts(as = "P2")]
    A(P3),
}

/// `as` on a unit variant of a tagged enum: the replacement type is never rendered
#[derive(TS)]
#[ts(export_to = p(66), rename = n(66), tag = "t")]
pub enum W3 {
    #[ts(as = "P5")]
    U,
    B { x: P6 },
}

// ---- family Z: attribute combinations x enum representations; manifest-free -----------------
// (their reference lists are taken from the *rendered declaration* by the independent parser:
// what a declaration names is what must be imported and exported - C03's own statement)

#[derive(TS)]
#[ts(export_to = p(67), rename = n(67))]
pub struct ZL0 {
    pub v: i32,
}

#[derive(TS)]
#[ts(export_to = p(68), rename = n(68))]
pub struct ZL1 {
    pub v: i32,
}

#[derive(TS)]
#[ts(export_to = p(69), rename = n(69))]
pub struct ZL2 {
    pub v: i32,
}

#[derive(TS)]
#[ts(export_to = p(70), rename = n(70))]
pub struct ZL3 {
    pub v: i32,
}

#[derive(TS)]
#[ts(export_to = p(71), rename = n(71))]
pub struct ZL4 {
    pub v: i32,
}

#[derive(TS)]
#[ts(export_to = p(72), rename = n(72))]
pub struct ZL5 {
    pub v: i32,
}

#[derive(TS)]
#[ts(export_to = p(73), rename = n(73))]
pub struct ZL6 {
    pub v: i32,
}

#[derive(TS)]
#[ts(export_to = p(74), rename = n(74))]
pub struct ZL7 {
    pub v: i32,
}

#[derive(TS)]
#[ts(export_to = p(75), rename = n(75))]
pub struct ZX0 {
    pub v: i32,
}

#[derive(TS)]
#[ts(export_to = p(76), rename = n(76))]
pub struct ZX1 {
    pub v: i32,
}

#[derive(TS)]
#[ts(export_to = p(77), rename = n(77))]
pub struct ZX2 {
    pub v: i32,
}

#[derive(TS)]
#[ts(export_to = p(78), rename = n(78))]
pub struct ZX3 {
    pub v: i32,
}

#[derive(TS)]
#[ts(export_to = p(79), rename = n(79))]
pub struct ZX4 {
    pub v: i32,
}

#[derive(TS)]
#[ts(export_to = p(80), rename = n(80))]
pub struct ZV0 {
    pub v: i32,
}

#[derive(TS)]
#[ts(export_to = p(81), rename = n(81))]
pub struct ZV1 {
    pub v: i32,
}

#[derive(TS)]
#[ts(export_to = p(82), rename = n(82))]
pub struct ZV2 {
    pub v: i32,
}

#[derive(TS)]
#[ts(export_to = p(83), rename = n(83))]
pub struct ZW0 {
    pub inner: ZX0,
}

#[derive(TS)]
#[ts(export_to = p(84), rename = n(84))]
pub struct ZW1 {
    pub inner: ZX1,
}

#[derive(TS)]
#[ts(export_to = p(85), rename = n(85))]
pub struct ZW2 {
    pub inner: ZX2,
}

#[derive(TS)]
#[ts(export_to = p(86), rename = n(86))]
pub struct ZW3 {
    pub inner: ZX3,
}

#[derive(TS)]
#[ts(export_to = p(87), rename = n(87))]
pub struct ZW4 {
    pub inner: ZX4,
}

macro_rules! z_enum {
    ($name:ident, $def:literal $(, $($attr:tt)*)?) => {
        #[derive(TS)]
        #[ts(export_to = p($def), rename = n($def) $(, $($attr)*)?)]
        pub enum $name {
            U,
            N(ZL0),
            Ni(#[ts(inline)] ZW0),
            Na(#[ts(as = "ZL1")] i32),
            Nt(#[ts(type = "number")] ZL7),
            T(ZL2, #[ts(inline)] ZW1),
            Tai(ZL3, #[ts(as = "ZW2", inline)] ZL7),
            S {
                a: ZL4,
                #[ts(inline)]
                b: ZW3,
                #[ts(as = "ZL5")]
                c: i32,
                #[ts(type = "string")]
                d: ZL7,
                #[ts(skip)]
                e: ZL7,
                #[ts(optional)]
                f: Option<ZL6>,
                #[ts(flatten)]
                g: ZW4,
            },
            #[ts(untagged)]
            Vu(ZV0),
            #[ts(untagged)]
            Vus {
                x: ZV1,
            },
            #[ts(as = "ZV2")]
            Va(i32),
            #[ts(as = "ZW2", inline)]
            Vai(i32),
            #[ts(type = "bigint")]
            Vt(ZL7),
            #[ts(skip)]
            Vs(ZL7),
        }
    };
}

z_enum!(Z0, 88);

z_enum!(Z1, 89, tag = "t");

z_enum!(Z2, 90, tag = "t", content = "c");

z_enum!(Z3, 91, untagged);

#[derive(TS)]
#[ts(export_to = p(92), rename = n(92))]
pub struct ZS0 {
    pub a: ZL4,
    #[ts(inline)]
    pub b: ZW3,
    #[ts(as = "ZL5")]
    pub c: i32,
    #[ts(type = "string")]
    pub d: ZL7,
    #[ts(skip)]
    pub e: ZL7,
    #[ts(optional)]
    pub f: Option<ZL6>,
    #[ts(flatten)]
    pub g: ZW4,
    #[ts(as = "ZW0", inline)]
    pub h: ZL7,
}

#[derive(TS)]
#[ts(export_to = p(93), rename = n(93))]
pub struct ZS1(
    pub ZL0,
    #[ts(inline)] pub ZW0,
    #[ts(as = "ZW2", inline)] pub ZL7,
    #[ts(skip)] pub ZL7,
    #[ts(type = "null")] pub ZL7,
    #[ts(as = "ZL1")] pub i32,
);

#[derive(TS)]
#[ts(export_to = p(94), rename = n(94))]
pub struct ZS2(#[ts(as = "ZW1", inline)] pub ZL7);

#[derive(TS)]
#[ts(export_to = p(95), rename = n(95), as = "ZW3")]
pub enum ZS3 {
    A,
    B(ZL7),
}

// ---- family ZG: generic shapes, manifest-free (second manifest-free range) -------------------

#[derive(TS)]
#[ts(export_to = p(96), rename = n(96))]
pub struct ZG0<T> {
    pub a: T,
    pub b: Option<T>,
    #[ts(inline)]
    pub c: ZW0,
    pub d: Vec<ZL1>,
}

#[derive(TS)]
#[ts(export_to = p(97), rename = n(97))]
pub struct ZG1<T = ZL4, U = ZG0<ZL5>> {
    pub t: T,
    pub u: U,
    pub k: ZL6,
}

#[derive(TS)]
#[ts(export_to = p(98), rename = n(98))]
pub struct ZG2<'a, T, const N: usize> {
    pub r: &'a T,
    pub arr: [T; N],
    pub fixed: [ZL2; 2],
}

#[derive(TS)]
#[ts(export_to = p(99), rename = n(99), concrete(T = ZL0))]
pub struct ZG3<T> {
    pub x: T,
    pub y: ZL1,
    pub z: Vec<Option<T>>,
}

#[derive(TS)]
#[ts(export_to = p(100), rename = n(100))]
pub struct ZG4 {
    pub a: ZG0<ZL2>,
    pub b: ZG0<ZG0<ZL3>>,
    pub c: ZG1,
    pub d: ZG1<ZL7, ZL0>,
    #[ts(inline)]
    pub e: ZG0<ZV0>,
    #[ts(flatten)]
    pub f: ZG1<ZV1>,
    pub g: ZG2<'static, ZV2, 3>,
    pub h: ZG3<ZL0>,
}

// ---- family SE: serde attributes (serde-compat), manifest-free --------------------------------

#[derive(TS, serde::Serialize)]
#[ts(export_to = p(101), rename = n(101))]
pub struct SL0 {
    pub v: i32,
}

#[derive(TS, serde::Serialize)]
#[ts(export_to = p(102), rename = n(102))]
pub struct SL1 {
    pub v: i32,
}

#[derive(TS, serde::Serialize)]
#[ts(export_to = p(103), rename = n(103))]
pub struct SL2 {
    pub v: i32,
}

#[derive(TS, serde::Serialize)]
#[ts(export_to = p(104), rename = n(104))]
pub struct SL3 {
    pub v: i32,
}

#[derive(TS, serde::Serialize)]
#[ts(export_to = p(105), rename = n(105))]
pub struct SL4 {
    pub v: i32,
}

#[derive(TS, serde::Serialize)]
#[ts(export_to = p(106), rename = n(106))]
pub struct SL5 {
    pub v: i32,
}

#[derive(TS, serde::Serialize)]
#[ts(export_to = p(107), rename = n(107))]
pub struct SX0 {
    pub v: i32,
}

#[derive(TS, serde::Serialize)]
#[ts(export_to = p(108), rename = n(108))]
pub struct SW0 {
    pub inner: SX0,
}

#[derive(TS, serde::Serialize)]
#[ts(export_to = p(109), rename = n(109))]
#[serde(rename_all = "camelCase")]
pub struct SE0 {
    pub plain_field: SL0,
    #[serde(skip)]
    pub skipped: SL5,
    #[serde(flatten)]
    pub flat: SW0,
    #[serde(rename = "renamed-field")]
    pub other: SL1,
    #[serde(skip_serializing_if = "Option::is_none")]
    pub opt: Option<SL2>,
}

#[derive(TS, serde::Serialize)]
#[ts(export_to = p(110), rename = n(110))]
#[serde(tag = "kind", content = "data", rename_all = "snake_case")]
pub enum SE1 {
    UnitVariant,
    NewType(SL0),
    Tuple(SL1, SL2),
    Struct {
        field_one: SL3,
        #[serde(skip)]
        hidden: SL5,
    },
    #[serde(skip)]
    Skipped(SL5),
    #[serde(untagged)]
    Fallback(SL4),
}

#[derive(TS, serde::Serialize)]
#[ts(export_to = p(111), rename = n(111))]
#[serde(untagged)]
pub enum SE2 {
    A(SL0),
    B {
        #[serde(flatten)]
        inner: SW0,
        x: SL3,
    },
}

// ---- family ZK: every library container position with its own leaf, manifest-free ---------------

#[derive(TS)]
#[ts(export_to = p(112), rename = n(112))]
pub struct ZK0 {
    pub map_key: HashMap<ZV0, ZL1>,
    pub btree: std::collections::BTreeMap<ZL7, ZX0>,
    pub tup10: (ZL0, ZL2, ZL3, ZL4, ZL5, ZL6, ZV1, ZV2, ZX1, ZX2),
    pub weak: std::sync::Weak<ZX3>,
    pub cell: std::cell::Cell<ZX4>,
    pub rw: std::sync::RwLock<ZW0>,
    pub reference: &'static ZW1,
    pub boxed_slice: Box<[ZW2]>,
    pub nested: Option<Result<ZW3, ZW4>>,
    pub single: ((SL0,), [SL1; 1]),
    pub set_of_tuples: std::collections::HashSet<(SL2, Option<SL3>)>,
    pub range: std::ops::RangeInclusive<SL4>,
    pub phantom: std::marker::PhantomData<SL5>,
}

// ---- family ZN: named-field attribute combinations, manifest-free ------------------------------

#[derive(TS)]
#[ts(export_to = p(113), rename = n(113), tag = "type")]
pub struct ZN0 {
    #[ts(flatten)]
    pub flat_generic: ZG0<ZL0>,
    #[ts(optional, as = "Option<ZL1>")]
    pub opt_as: Option<i32>,
    #[ts(inline)]
    pub inl_opt: Option<ZW0>,
    #[ts(inline)]
    pub inl_vec: Vec<ZW1>,
    #[ts(inline)]
    pub inl_box: Box<ZW2>,
    #[ts(flatten)]
    pub flat_enum: ZN1,
    #[ts(optional = nullable)]
    pub opt_null: Option<ZL2>,
    #[ts(rename = "renamed", as = "ZL3")]
    pub ren: i32,
}

#[derive(TS)]
#[ts(export_to = p(114), rename = n(114), untagged)]
pub enum ZN1 {
    A { a: ZV0 },
    B { b: Option<ZV1> },
}

#[derive(TS)]
#[ts(export_to = p(115), rename = n(115), optional_fields)]
pub struct ZN2 {
    pub a: Option<ZL4>,
    pub b: ZL5,
    #[ts(flatten)]
    pub c: ZW3,
    #[ts(inline)]
    pub d: ZN1,
}

// ---- family ZY: shapes found missing by seeded-change round 4, manifest-free ----------------------

#[derive(TS)]
#[ts(export_to = p(116), rename = n(116))]
pub struct ZY0 {
    pub v: i32,
}

#[derive(TS)]
#[ts(export_to = p(117), rename = n(117))]
pub struct ZY1 {
    pub v: i32,
}

#[derive(TS)]
#[ts(export_to = p(118), rename = n(118))]
pub struct ZY2 {
    pub v: i32,
}

#[derive(TS)]
#[ts(export_to = p(119), rename = n(119))]
pub struct ZY3 {
    pub v: i32,
}

#[derive(TS)]
#[ts(export_to = p(120), rename = n(120))]
pub struct ZY4 {
    pub v: i32,
}

#[derive(TS)]
#[ts(export_to = p(121), rename = n(121))]
pub struct ZY5 {
    pub v: i32,
}

#[derive(TS)]
#[ts(export_to = p(122), rename = n(122))]
pub struct ZY6 {
    pub v: i32,
}

#[derive(TS)]
#[ts(export_to = p(123), rename = n(123))]
pub struct ZY7 {
    pub v: i32,
}

#[derive(TS)]
#[ts(export_to = p(124), rename = n(124))]
pub struct ZY8 {
    pub v: i32,
}

#[derive(TS)]
#[ts(export_to = p(125), rename = n(125))]
pub struct ZY9 {
    pub v: i32,
}

#[derive(TS)]
#[ts(export_to = p(126), rename = n(126))]
pub struct ZY10 {
    pub v: i32,
}

#[derive(TS)]
#[ts(export_to = p(127), rename = n(127))]
pub struct ZY11 {
    pub v: i32,
}

#[derive(TS)]
#[ts(export_to = p(128), rename = n(128))]
pub struct ZY12 {
    pub v: i32,
}

#[derive(TS)]
#[ts(export_to = p(129), rename = n(129))]
pub struct ZY13 {
    pub v: i32,
}

#[derive(TS)]
#[ts(export_to = p(130), rename = n(130))]
pub struct ZY14 {
    pub v: i32,
}

#[derive(TS)]
#[ts(export_to = p(131), rename = n(131))]
pub struct ZY15 {
    pub v: i32,
}

#[derive(TS)]
#[ts(export_to = p(132), rename = n(132))]
pub struct ZYW0 {
    pub inner: ZY0,
}

#[derive(TS)]
#[ts(export_to = p(133), rename = n(133))]
pub struct ZYW1 {
    pub inner: ZY1,
}

#[derive(TS)]
#[ts(export_to = p(134), rename = n(134))]
pub struct ZYW2 {
    pub inner: ZY2,
}

#[derive(TS)]
#[ts(export_to = p(135), rename = n(135))]
pub struct ZYW3 {
    pub inner: ZY3,
}

#[derive(TS)]
#[ts(export_to = p(136), rename = n(136))]
pub struct ZYW4 {
    pub inner: ZY4,
}

#[derive(TS)]
#[ts(export_to = p(137), rename = n(137))]
pub struct ZYW5 {
    pub inner: ZY5,
}

#[derive(TS)]
#[ts(export_to = p(138), rename = n(138))]
pub struct ZY_S0(#[ts(inline)] pub Vec<ZYW0>);

#[derive(TS)]
#[ts(export_to = p(139), rename = n(139))]
pub struct ZY_S1(#[ts(inline)] pub Option<Box<ZYW1>>);

#[derive(TS)]
#[ts(export_to = p(140), rename = n(140))]
pub enum ZY_E0 {
    A(#[ts(inline)] Vec<ZYW2>),
    B(#[ts(inline)] HashMap<String, ZYW3>),
    C,
}

#[derive(TS)]
#[ts(export_to = p(141), rename = n(141), concrete(U = ZY6))]
pub struct ZY_G0<U = ZY7> {
    pub u: U,
    pub k: ZY8,
}

#[derive(TS)]
#[ts(export_to = p(142), rename = n(142))]
pub struct ZY_G1<T, C = ZG0<T>> {
    pub t: T,
    pub c: C,
}

#[derive(TS)]
#[ts(export_to = p(143), rename = n(143), concrete(C = ZY13))]
pub struct ZY_G2<A, B, C> {
    pub a: A,
    pub b: Vec<B>,
    pub c: C,
}

#[derive(TS)]
#[ts(export_to = p(144), rename = n(144))]
pub struct ZY_N0 {
    #[ts(flatten)]
    pub left: Box<ZYW4>,
    #[ts(flatten)]
    pub right: Box<ZYW5>,
    #[ts(inline)]
    pub outcome: Result<ZW3, ZW4>,
    pub wrapped_key: HashMap<std::sync::Arc<ZY14>, ZY15>,
    pub boxed_key: std::collections::BTreeMap<Box<ZV0>, u32>,
}

// ---- family HW: a generic type that implements TS by hand and relies on the trait's provided
// methods (ident() from name(), dependencies() from the visitors), used by derived types --------

pub struct Hand<T>(pub T);

impl<T: TS> TS for Hand<T> {
    type WithoutGenerics = Hand<ts_rs::Dummy>;
    type OptionInnerType = Self;

    fn name() -> String {
        format!("{}<{}>", n(145), T::name())
    }
    fn decl() -> String {
        format!("type {}<T> = {{ value: T, tag: {}, }};", n(145), <ZL0 as TS>::name())
    }
    fn decl_concrete() -> String {
        format!("type {} = {};", n(145), Self::inline())
    }
    fn inline() -> String {
        format!("{{ value: {}, tag: {}, }}", T::name(), <ZL0 as TS>::name())
    }
    fn inline_flattened() -> String {
        Self::inline()
    }
    fn output_path() -> Option<std::path::PathBuf> {
        let e = p(145);
        Some(std::path::PathBuf::from(if e.ends_with('/') {
            format!("{e}{}.ts", n(145))
        } else {
            e
        }))
    }
    fn visit_dependencies(v: &mut impl ts_rs::TypeVisitor)
    where
        Self: 'static,
    {
        // everything inline() names: the parameter (as the derive does for a field of type T)
        // and the tag type
        v.visit::<T>();
        <T as TS>::visit_generics(v);
        v.visit::<ZL0>();
    }
    fn visit_generics(v: &mut impl ts_rs::TypeVisitor)
    where
        Self: 'static,
    {
        v.visit::<T>();
        <T as TS>::visit_generics(v);
    }
}

#[derive(TS)]
#[ts(export_to = p(146), rename = n(146))]
pub struct UsesHand {
    pub h: Hand<ZL1>,
    pub o: Option<Hand<ZL2>>,
    pub nested: Hand<Hand<ZL3>>,
    #[ts(inline)]
    pub inl: Hand<ZL4>,
}

// a hand-written type whose identifier is not the prefix of its name, and its users
pub struct ReadOnly;

impl TS for ReadOnly {
    type WithoutGenerics = Self;
    type OptionInnerType = Self;

    fn ident() -> String {
        n(147)
    }
    fn name() -> String {
        format!("Readonly<{}>", n(147))
    }
    fn decl() -> String {
        format!("type {} = {{ theme: string, size: number, }};", n(147))
    }
    fn decl_concrete() -> String {
        Self::decl()
    }
    fn inline() -> String {
        "{ theme: string, size: number, }".to_string()
    }
    fn inline_flattened() -> String {
        Self::inline()
    }
    fn output_path() -> Option<std::path::PathBuf> {
        let e = p(147);
        Some(std::path::PathBuf::from(if e.ends_with('/') {
            format!("{e}{}.ts", n(147))
        } else {
            e
        }))
    }
}

#[derive(TS)]
#[ts(export_to = p(148), rename = n(148))]
pub struct UsesReadOnly {
    pub settings: ReadOnly,
    pub history: Vec<ReadOnly>,
    #[ts(inline)]
    pub double: Option<Option<SW0>>,
    pub plain_double: Option<Option<SL1>>,
}

// ---- family L: literal attributes, as in ordinary user code -------------------------------

#[derive(TS)]
pub struct L0 {
    pub a: L1,
    pub b: L2,
}

#[derive(TS)]
#[ts(export_to = "lit/")]
pub struct L1 {
    pub c: L3,
}

#[derive(TS)]
#[ts(export_to = "lit/shared.ts")]
pub struct L2 {
    pub x: i32,
}

/// Lives in the same file as `L2`.
#[derive(TS)]
#[ts(export_to = "lit/shared.ts")]
pub struct L3 {
    pub y: L4,
}

#[derive(TS)]
#[ts(export_to = "../up/L4.ts")]
pub struct L4(pub String);

/// Number of definitions that read the table (`p(i)` / `n(i)`).
pub const DER_DEFS: usize = 149;

#[derive(Clone, Copy, Debug)]
pub enum Place {
    /// `export_to = p(i), rename = n(i)`
    Table(usize),
    /// `rename = n(i)` only
    RenameOnly(usize),
    /// a library container around corpus types: no output path of its own
    NotExportable,
    /// literal attributes
    Lit {
        name: &'static str,
        export_to: Option<&'static str>,
    },
}

pub struct DerInfo {
    pub label: &'static str,
    pub place: Place,
    /// handles whose TypeScript identifiers the (generic) declaration names, other than itself
    pub import_refs: &'static [usize],
    /// handles an export of this instantiation must reach directly
    pub reach_refs: &'static [usize],
}

pub const A0_: usize = 0;
pub const A1_: usize = 1;
pub const A2_: usize = 2;
pub const A3_: usize = 3;
pub const G_A1: usize = 4;
pub const G_A2: usize = 5;
pub const G_G_A3: usize = 6;
pub const G_A3: usize = 7;
pub const H_DEF: usize = 8;
pub const H_A3: usize = 9;
pub const USEG: usize = 10;
pub const F1_: usize = 11;
pub const I0_: usize = 12;
pub const I1_: usize = 13;
pub const I3_: usize = 14;
pub const C0_: usize = 15;
pub const C1_: usize = 16;
pub const D0_: usize = 17;
pub const D1_: usize = 18;
pub const D2_: usize = 19;
pub const E0_: usize = 20;
pub const T0_: usize = 21;
pub const N0_: usize = 22;
pub const R0_: usize = 23;
pub const L0_: usize = 24;
pub const L1_: usize = 25;
pub const L2_: usize = 26;
pub const L3_: usize = 27;
pub const L4_: usize = 28;
pub const I4_: usize = 29;
pub const I5_: usize = 30;
pub const I6_: usize = 31;
pub const K0_: usize = 32;
pub const K1_: usize = 33;
pub const K2_A1: usize = 34;
pub const K2_G_A3: usize = 35;
pub const K3_: usize = 36;
pub const K4_: usize = 37;
pub const K5_VEC_D0: usize = 38;
pub const P0_: usize = 39;
pub const P1_: usize = 40;
pub const P2_: usize = 41;
pub const P3_: usize = 42;
pub const P4_: usize = 43;
pub const P5_: usize = 44;
pub const P6_: usize = 45;
pub const P7_: usize = 46;
pub const P8_: usize = 47;
pub const P9_: usize = 48;
pub const P10_: usize = 49;
pub const P11_: usize = 50;
pub const P12_: usize = 51;
pub const P13_: usize = 52;
pub const P14_: usize = 53;
pub const P15_: usize = 54;
pub const P16_: usize = 55;
pub const P17_: usize = 56;
pub const P18_: usize = 57;
pub const P19_: usize = 58;
pub const P4W_: usize = 59;
pub const P9W_: usize = 60;
pub const P14W_: usize = 61;
pub const P15W_: usize = 62;
pub const P17W_: usize = 63;
pub const P19W_: usize = 64;
pub const V0_: usize = 65;
pub const V1_: usize = 66;
pub const V2_: usize = 67;
pub const V3_: usize = 68;
pub const V4_: usize = 69;
pub const V5_: usize = 70;
pub const V6_: usize = 71;
pub const G_DUMMY: usize = 72;
pub const H_DUMMY: usize = 73;
pub const K2_DUMMY: usize = 74;
pub const W0_: usize = 75;
pub const W1_: usize = 76;
pub const W2_: usize = 77;
pub const W5_: usize = 78;
pub const W3_: usize = 79;
/// handles from here on take their reference lists from their rendered declaration
pub const AUTO_FROM: usize = 80;
pub const ZL0_: usize = 80;
pub const ZL1_: usize = 81;
pub const ZL2_: usize = 82;
pub const ZL3_: usize = 83;
pub const ZL4_: usize = 84;
pub const ZL5_: usize = 85;
pub const ZL6_: usize = 86;
pub const ZL7_: usize = 87;
pub const ZX0_: usize = 88;
pub const ZX1_: usize = 89;
pub const ZX2_: usize = 90;
pub const ZX3_: usize = 91;
pub const ZX4_: usize = 92;
pub const ZV0_: usize = 93;
pub const ZV1_: usize = 94;
pub const ZV2_: usize = 95;
pub const ZW0_: usize = 96;
pub const ZW1_: usize = 97;
pub const ZW2_: usize = 98;
pub const ZW3_: usize = 99;
pub const ZW4_: usize = 100;
pub const Z0_: usize = 101;
pub const Z1_: usize = 102;
pub const Z2_: usize = 103;
pub const Z3_: usize = 104;
pub const ZS0_: usize = 105;
pub const ZS1_: usize = 106;
pub const ZS2_: usize = 107;
pub const ZS3_: usize = 108;
/// end (exclusive) of the manifest-free range
pub const AUTO_TO: usize = 109;
pub const VEC_A0: usize = 109;
pub const OPT_USEG: usize = 110;
pub const BOX_C0: usize = 111;
/// second manifest-free range
pub const AUTO2_FROM: usize = 112;
pub const H_ZG0_DUMMY_: usize = 112;
pub const H_ZG0_ZL2_: usize = 113;
pub const H_ZG0_ZG0_ZL3__: usize = 114;
pub const H_ZG1_DUMMY_DUMMY_: usize = 115;
pub const H_ZG1: usize = 116;
pub const H_ZG1_ZL7_ZL0_: usize = 117;
pub const H_ZG2_DUMMY_: usize = 118;
pub const H_ZG2_ZV2_: usize = 119;
pub const H_ZG3: usize = 120;
pub const H_ZG4: usize = 121;
pub const SL0_: usize = 122;
pub const SL1_: usize = 123;
pub const SL2_: usize = 124;
pub const SL3_: usize = 125;
pub const SL4_: usize = 126;
pub const SL5_: usize = 127;
pub const SX0_: usize = 128;
pub const SW0_: usize = 129;
pub const SE0_: usize = 130;
pub const SE1_: usize = 131;
pub const SE2_: usize = 132;
pub const ZK0_: usize = 133;
pub const ZN0_: usize = 134;
pub const ZN1_: usize = 135;
pub const ZN2_: usize = 136;
pub const H_ZY0: usize = 137;
pub const H_ZY1: usize = 138;
pub const H_ZY2: usize = 139;
pub const H_ZY3: usize = 140;
pub const H_ZY4: usize = 141;
pub const H_ZY5: usize = 142;
pub const H_ZY6: usize = 143;
pub const H_ZY7: usize = 144;
pub const H_ZY8: usize = 145;
pub const H_ZY9: usize = 146;
pub const H_ZY10: usize = 147;
pub const H_ZY11: usize = 148;
pub const H_ZY12: usize = 149;
pub const H_ZY13: usize = 150;
pub const H_ZY14: usize = 151;
pub const H_ZY15: usize = 152;
pub const H_ZYW0: usize = 153;
pub const H_ZYW1: usize = 154;
pub const H_ZYW2: usize = 155;
pub const H_ZYW3: usize = 156;
pub const H_ZYW4: usize = 157;
pub const H_ZYW5: usize = 158;
pub const H_ZY_S0: usize = 159;
pub const H_ZY_S1: usize = 160;
pub const H_ZY_E0: usize = 161;
pub const H_ZY_G0: usize = 162;
pub const H_ZY_G1_ERASED: usize = 163;
pub const H_ZY_G1: usize = 164;
pub const H_ZY_G2_ERASED: usize = 165;
pub const H_ZY_G2: usize = 166;
pub const H_ZY_N0: usize = 167;
pub const HAND_DUMMY: usize = 168;
pub const HAND_ZL1: usize = 169;
pub const USESHAND_: usize = 170;
pub const READONLY_: usize = 171;
pub const USESREADONLY_: usize = 172;
/// first handle of the generated combinatorial corpus (`combo.rs`)
pub const COMBO_FROM: usize = 173;
pub const DER_HANDLES: usize = 173 + crate::combo::COMBO_LEN;

use Place::{Lit, RenameOnly, Table as Tb};

const HAND_MANIFEST: [DerInfo; COMBO_FROM] = [
    // type A0 = { a: A1, b: Array<A2>, c: A3 | null, d: { [key in string]?: A2 } };
    DerInfo { label: "A0", place: Tb(0), import_refs: &[A1_, A2_, A3_], reach_refs: &[A1_, A2_, A3_] },
    // type A1 = { x: number, inner: A3 };
    DerInfo { label: "A1", place: Tb(1), import_refs: &[A3_], reach_refs: &[A3_] },
    // type A2 = string;
    DerInfo { label: "A2", place: Tb(2), import_refs: &[], reach_refs: &[] },
    // type A3 = "X" | { "Y": { z: A2 } } | { "W": A3 };
    DerInfo { label: "A3", place: Tb(3), import_refs: &[A2_], reach_refs: &[A2_] },
    // type G<T> = { v: T, w: Array<T> };  -- generic declaration names no other type
    DerInfo { label: "G<A1>", place: Tb(4), import_refs: &[], reach_refs: &[A1_] },
    DerInfo { label: "G<A2>", place: Tb(4), import_refs: &[], reach_refs: &[A2_] },
    DerInfo { label: "G<G<A3>>", place: Tb(4), import_refs: &[], reach_refs: &[G_A3, A3_] },
    DerInfo { label: "G<A3>", place: Tb(4), import_refs: &[], reach_refs: &[A3_] },
    // type H<T = A2> = { t: T, k: A1 };
    DerInfo { label: "H", place: Tb(5), import_refs: &[A2_, A1_], reach_refs: &[A2_, A1_] },
    DerInfo { label: "H<A3>", place: Tb(5), import_refs: &[A2_, A1_], reach_refs: &[A2_, A1_, A3_] },
    // type UseG = { a: G<A1>, b: G<A2>, c: G<G<A3>>, h: H<A2> };
    DerInfo { label: "UseG", place: Tb(6), import_refs: &[G_A1, A1_, A2_, A3_, H_DEF], reach_refs: &[G_A1, G_A2, G_G_A3, H_DEF, A1_, A2_, A3_] },
    // type F1 = { p: A2, q: number };
    DerInfo { label: "F1", place: Tb(7), import_refs: &[A2_], reach_refs: &[A2_] },
    // type I0 = { a: { x: number, inner: A3 }, p: A2, q: number };
    DerInfo { label: "I0", place: Tb(8), import_refs: &[A3_, A2_], reach_refs: &[A3_, A2_] },
    // type I1 = { a: A3, b: string };
    DerInfo { label: "I1", place: Tb(9), import_refs: &[A3_], reach_refs: &[A3_] },
    // type I3 = { g: { v: A2, w: Array<A2> }, o: Array<F1> | null };
    DerInfo { label: "I3", place: Tb(10), import_refs: &[A2_, F1_], reach_refs: &[A2_, F1_] },
    // type C0 = { next: C1 | null, leaf: A2 };
    DerInfo { label: "C0", place: Tb(11), import_refs: &[C1_, A2_], reach_refs: &[C1_, A2_] },
    // type C1 = { back: Array<C0>, me: C1 | null };
    DerInfo { label: "C1", place: Tb(12), import_refs: &[C0_], reach_refs: &[C0_] },
    // type D0 = { a: A2, b: number };  (with field docs)
    DerInfo { label: "D0", place: Tb(13), import_refs: &[A2_], reach_refs: &[A2_] },
    // type D1 = "V1" | { "V2": { f: D0 } };
    DerInfo { label: "D1", place: Tb(14), import_refs: &[D0_], reach_refs: &[D0_] },
    // type D2 = { a: number };
    DerInfo { label: "D2", place: Tb(15), import_refs: &[], reach_refs: &[] },
    // type E0 = { "kind": "One", "data": A1 } | { "kind": "Two", "data": { x: G<A2> } } | { "kind": "Three" };
    DerInfo { label: "E0", place: Tb(16), import_refs: &[A1_, G_A2, A2_], reach_refs: &[A1_, G_A2, A2_] },
    // type T0 = [A1, Array<A3>];
    DerInfo { label: "T0", place: Tb(17), import_refs: &[A1_, A3_], reach_refs: &[A1_, A3_] },
    // type N0 = A2 | null;
    DerInfo { label: "N0", place: Tb(18), import_refs: &[A2_], reach_refs: &[A2_] },
    // type R0 = { a: A2 };
    DerInfo { label: "R0", place: RenameOnly(19), import_refs: &[A2_], reach_refs: &[A2_] },
    DerInfo { label: "L0", place: Lit { name: "L0", export_to: None }, import_refs: &[L1_, L2_], reach_refs: &[L1_, L2_] },
    DerInfo { label: "L1", place: Lit { name: "L1", export_to: Some("lit/") }, import_refs: &[L3_], reach_refs: &[L3_] },
    DerInfo { label: "L2", place: Lit { name: "L2", export_to: Some("lit/shared.ts") }, import_refs: &[], reach_refs: &[] },
    DerInfo { label: "L3", place: Lit { name: "L3", export_to: Some("lit/shared.ts") }, import_refs: &[L4_], reach_refs: &[L4_] },
    DerInfo { label: "L4", place: Lit { name: "L4", export_to: Some("../up/L4.ts") }, import_refs: &[], reach_refs: &[] },
    // type I4 = { a: { x: number, inner: A3 }, b: A1 };
    DerInfo { label: "I4", place: Tb(20), import_refs: &[A3_, A1_], reach_refs: &[A3_, A1_] },
    // type I5 = { a: F1, p: A2, q: number };
    DerInfo { label: "I5", place: Tb(21), import_refs: &[F1_, A2_], reach_refs: &[F1_, A2_] },
    // type I6 = { h: G<A2>, g: { v: A2, w: Array<A2> } };
    DerInfo { label: "I6", place: Tb(22), import_refs: &[G_A2, A2_], reach_refs: &[G_A2, A2_] },
    // type K0 = { a: { Ok : A1 } | { Err : A2 }, b: [A1, Array<A3>], c: [A2, A2, A2], d: A1, e: F1 };
    DerInfo { label: "K0", place: Tb(23), import_refs: &[A1_, A2_, A3_, F1_], reach_refs: &[A1_, A2_, A3_, F1_] },
    // type K1 = { f: { [key in string]?: A3 }, g: Array<A2>, h: Array<A2>, i: { start: A2, end: A2 }, j: A1, k: F1, l: A2,
    //             m: Array<[A1, A2]> | null, n: Array<A3>, o: A2, q: { start: D0, end: D0 } };
    DerInfo { label: "K1", place: Tb(24), import_refs: &[A3_, A2_, A1_, F1_, D0_], reach_refs: &[A3_, A2_, A1_, F1_, D0_] },
    // type K2<T> = { a: T | null, b: Array<[T, A2]>, c: { [key in string]?: T } };
    DerInfo { label: "K2<A1>", place: Tb(25), import_refs: &[A2_], reach_refs: &[A2_, A1_] },
    DerInfo { label: "K2<G<A3>>", place: Tb(25), import_refs: &[A2_], reach_refs: &[A2_, G_A3, A3_] },
    // type K3 = { x: K2<A1>, y: [K2<G<A3>> | null, K2<G<A3>> | null] };
    DerInfo { label: "K3", place: Tb(26), import_refs: &[K2_A1, A1_, G_A3, A3_], reach_refs: &[K2_A1, K2_G_A3, A1_, G_A3, A3_] },
    // type K4 = { big: Array<A3>, alias: Array<F1>, page: K5<Array<D0>>, inl: { rows: Array<A1> }, exact: [C0, .. x64] };
    DerInfo { label: "K4", place: Tb(28), import_refs: &[A3_, F1_, K5_VEC_D0, D0_, A1_, C0_], reach_refs: &[A3_, F1_, K5_VEC_D0, D0_, A1_, C0_] },
    // type K5<T> = { rows: T };
    DerInfo { label: "K5<Vec<D0>>", place: Tb(27), import_refs: &[], reach_refs: &[D0_] },
    DerInfo { label: "P0", place: Tb(29), import_refs: &[], reach_refs: &[] },
    DerInfo { label: "P1", place: Tb(30), import_refs: &[], reach_refs: &[] },
    DerInfo { label: "P2", place: Tb(31), import_refs: &[], reach_refs: &[] },
    DerInfo { label: "P3", place: Tb(32), import_refs: &[], reach_refs: &[] },
    DerInfo { label: "P4", place: Tb(33), import_refs: &[], reach_refs: &[] },
    DerInfo { label: "P5", place: Tb(34), import_refs: &[], reach_refs: &[] },
    DerInfo { label: "P6", place: Tb(35), import_refs: &[], reach_refs: &[] },
    DerInfo { label: "P7", place: Tb(36), import_refs: &[], reach_refs: &[] },
    DerInfo { label: "P8", place: Tb(37), import_refs: &[], reach_refs: &[] },
    DerInfo { label: "P9", place: Tb(38), import_refs: &[], reach_refs: &[] },
    DerInfo { label: "P10", place: Tb(39), import_refs: &[], reach_refs: &[] },
    DerInfo { label: "P11", place: Tb(40), import_refs: &[], reach_refs: &[] },
    DerInfo { label: "P12", place: Tb(41), import_refs: &[], reach_refs: &[] },
    DerInfo { label: "P13", place: Tb(42), import_refs: &[], reach_refs: &[] },
    DerInfo { label: "P14", place: Tb(43), import_refs: &[], reach_refs: &[] },
    DerInfo { label: "P15", place: Tb(44), import_refs: &[], reach_refs: &[] },
    DerInfo { label: "P16", place: Tb(45), import_refs: &[], reach_refs: &[] },
    DerInfo { label: "P17", place: Tb(46), import_refs: &[], reach_refs: &[] },
    DerInfo { label: "P18", place: Tb(47), import_refs: &[], reach_refs: &[] },
    DerInfo { label: "P19", place: Tb(48), import_refs: &[], reach_refs: &[] },
    DerInfo { label: "P4w", place: Tb(49), import_refs: &[P4_], reach_refs: &[P4_] },
    DerInfo { label: "P9w", place: Tb(50), import_refs: &[P9_], reach_refs: &[P9_] },
    DerInfo { label: "P14w", place: Tb(51), import_refs: &[P14_], reach_refs: &[P14_] },
    DerInfo { label: "P15w", place: Tb(52), import_refs: &[P15_], reach_refs: &[P15_] },
    DerInfo { label: "P17w", place: Tb(53), import_refs: &[P17_], reach_refs: &[P17_] },
    DerInfo { label: "P19w", place: Tb(54), import_refs: &[P19_], reach_refs: &[P19_] },
    DerInfo { label: "V0", place: Tb(55), import_refs: &[P0_, P1_, P2_, P3_, P4_, P7_], reach_refs: &[P0_, P1_, P2_, P3_, P4_, P7_] },
    DerInfo { label: "V1", place: Tb(56), import_refs: &[P8_, P9W_], reach_refs: &[P8_, P9W_] },
    DerInfo { label: "V2", place: Tb(57), import_refs: &[P10_, P11_], reach_refs: &[P10_, P11_] },
    DerInfo { label: "V3", place: Tb(58), import_refs: &[P12_, P13_, P14_], reach_refs: &[P12_, P13_, P14_] },
    DerInfo { label: "V4", place: Tb(59), import_refs: &[P15_], reach_refs: &[P15_] },
    DerInfo { label: "V5", place: Tb(60), import_refs: &[P16_, P17_], reach_refs: &[P16_, P17_] },
    DerInfo { label: "V6", place: Tb(61), import_refs: &[P19_], reach_refs: &[P19_] },
    // what the generated `#[ts(export)]` test exports for a generic type: the generics-erased
    // instantiation
    DerInfo { label: "G<Dummy>", place: Tb(4), import_refs: &[], reach_refs: &[] },
    DerInfo { label: "H<Dummy>", place: Tb(5), import_refs: &[A2_, A1_], reach_refs: &[A2_, A1_] },
    DerInfo { label: "K2<Dummy>", place: Tb(25), import_refs: &[A2_], reach_refs: &[A2_] },
    // type W0 = { "t": "A", "c": { inner: P4 } };
    DerInfo { label: "W0", place: Tb(62), import_refs: &[P4_], reach_refs: &[P4_] },
    // type W1 = { "t": "A" } & { k: P9 };
    DerInfo { label: "W1", place: Tb(63), import_refs: &[P9_], reach_refs: &[P9_] },
    // type W2 = { "t": "A", "c": P0 };
    DerInfo { label: "W2", place: Tb(64), import_refs: &[P0_], reach_refs: &[P0_] },
    // type W5 = { "t": "A" } & P2;
    DerInfo { label: "W5", place: Tb(65), import_refs: &[P2_], reach_refs: &[P2_] },
    // type W3 = { "t": "U" } | { "t": "B", x: P6 };   (P5 is not rendered, so not needed)
    DerInfo { label: "W3", place: Tb(66), import_refs: &[P6_], reach_refs: &[P6_] },
    // family Z (manifest-free, see AUTO_FROM)
    DerInfo { label: "ZL0", place: Tb(67), import_refs: &[], reach_refs: &[] },
    DerInfo { label: "ZL1", place: Tb(68), import_refs: &[], reach_refs: &[] },
    DerInfo { label: "ZL2", place: Tb(69), import_refs: &[], reach_refs: &[] },
    DerInfo { label: "ZL3", place: Tb(70), import_refs: &[], reach_refs: &[] },
    DerInfo { label: "ZL4", place: Tb(71), import_refs: &[], reach_refs: &[] },
    DerInfo { label: "ZL5", place: Tb(72), import_refs: &[], reach_refs: &[] },
    DerInfo { label: "ZL6", place: Tb(73), import_refs: &[], reach_refs: &[] },
    DerInfo { label: "ZL7", place: Tb(74), import_refs: &[], reach_refs: &[] },
    DerInfo { label: "ZX0", place: Tb(75), import_refs: &[], reach_refs: &[] },
    DerInfo { label: "ZX1", place: Tb(76), import_refs: &[], reach_refs: &[] },
    DerInfo { label: "ZX2", place: Tb(77), import_refs: &[], reach_refs: &[] },
    DerInfo { label: "ZX3", place: Tb(78), import_refs: &[], reach_refs: &[] },
    DerInfo { label: "ZX4", place: Tb(79), import_refs: &[], reach_refs: &[] },
    DerInfo { label: "ZV0", place: Tb(80), import_refs: &[], reach_refs: &[] },
    DerInfo { label: "ZV1", place: Tb(81), import_refs: &[], reach_refs: &[] },
    DerInfo { label: "ZV2", place: Tb(82), import_refs: &[], reach_refs: &[] },
    DerInfo { label: "ZW0", place: Tb(83), import_refs: &[], reach_refs: &[] },
    DerInfo { label: "ZW1", place: Tb(84), import_refs: &[], reach_refs: &[] },
    DerInfo { label: "ZW2", place: Tb(85), import_refs: &[], reach_refs: &[] },
    DerInfo { label: "ZW3", place: Tb(86), import_refs: &[], reach_refs: &[] },
    DerInfo { label: "ZW4", place: Tb(87), import_refs: &[], reach_refs: &[] },
    DerInfo { label: "Z0", place: Tb(88), import_refs: &[], reach_refs: &[] },
    DerInfo { label: "Z1", place: Tb(89), import_refs: &[], reach_refs: &[] },
    DerInfo { label: "Z2", place: Tb(90), import_refs: &[], reach_refs: &[] },
    DerInfo { label: "Z3", place: Tb(91), import_refs: &[], reach_refs: &[] },
    DerInfo { label: "ZS0", place: Tb(92), import_refs: &[], reach_refs: &[] },
    DerInfo { label: "ZS1", place: Tb(93), import_refs: &[], reach_refs: &[] },
    DerInfo { label: "ZS2", place: Tb(94), import_refs: &[], reach_refs: &[] },
    DerInfo { label: "ZS3", place: Tb(95), import_refs: &[], reach_refs: &[] },
    // non-exportable container roots with exportable contents (C17: must fail and touch nothing)
    DerInfo { label: "Vec<A0>", place: Place::NotExportable, import_refs: &[], reach_refs: &[A0_] },
    DerInfo { label: "Option<UseG>", place: Place::NotExportable, import_refs: &[], reach_refs: &[USEG] },
    DerInfo { label: "Box<C0>", place: Place::NotExportable, import_refs: &[], reach_refs: &[C0_] },
    // family ZG (manifest-free, see AUTO2_FROM; the erased instantiation of each definition comes
    // first so that a lookup by name finds it)
    DerInfo { label: "ZG0<Dummy>", place: Tb(96), import_refs: &[], reach_refs: &[] },
    DerInfo { label: "ZG0<ZL2>", place: Tb(96), import_refs: &[], reach_refs: &[] },
    DerInfo { label: "ZG0<ZG0<ZL3>>", place: Tb(96), import_refs: &[], reach_refs: &[] },
    DerInfo { label: "ZG1<Dummy,Dummy>", place: Tb(97), import_refs: &[], reach_refs: &[] },
    DerInfo { label: "ZG1", place: Tb(97), import_refs: &[], reach_refs: &[] },
    DerInfo { label: "ZG1<ZL7,ZL0>", place: Tb(97), import_refs: &[], reach_refs: &[] },
    DerInfo { label: "ZG2<Dummy>", place: Tb(98), import_refs: &[], reach_refs: &[] },
    DerInfo { label: "ZG2<ZV2>", place: Tb(98), import_refs: &[], reach_refs: &[] },
    DerInfo { label: "ZG3", place: Tb(99), import_refs: &[], reach_refs: &[] },
    DerInfo { label: "ZG4", place: Tb(100), import_refs: &[], reach_refs: &[] },
    // family SE (manifest-free: >= AUTO2_FROM)
    DerInfo { label: "SL0", place: Tb(101), import_refs: &[], reach_refs: &[] },
    DerInfo { label: "SL1", place: Tb(102), import_refs: &[], reach_refs: &[] },
    DerInfo { label: "SL2", place: Tb(103), import_refs: &[], reach_refs: &[] },
    DerInfo { label: "SL3", place: Tb(104), import_refs: &[], reach_refs: &[] },
    DerInfo { label: "SL4", place: Tb(105), import_refs: &[], reach_refs: &[] },
    DerInfo { label: "SL5", place: Tb(106), import_refs: &[], reach_refs: &[] },
    DerInfo { label: "SX0", place: Tb(107), import_refs: &[], reach_refs: &[] },
    DerInfo { label: "SW0", place: Tb(108), import_refs: &[], reach_refs: &[] },
    DerInfo { label: "SE0", place: Tb(109), import_refs: &[], reach_refs: &[] },
    DerInfo { label: "SE1", place: Tb(110), import_refs: &[], reach_refs: &[] },
    DerInfo { label: "SE2", place: Tb(111), import_refs: &[], reach_refs: &[] },
    DerInfo { label: "ZK0", place: Tb(112), import_refs: &[], reach_refs: &[] },
    DerInfo { label: "ZN0", place: Tb(113), import_refs: &[], reach_refs: &[] },
    DerInfo { label: "ZN1", place: Tb(114), import_refs: &[], reach_refs: &[] },
    DerInfo { label: "ZN2", place: Tb(115), import_refs: &[], reach_refs: &[] },
    // family ZY (manifest-free)
    DerInfo { label: "ZY0", place: Tb(116), import_refs: &[], reach_refs: &[] },
    DerInfo { label: "ZY1", place: Tb(117), import_refs: &[], reach_refs: &[] },
    DerInfo { label: "ZY2", place: Tb(118), import_refs: &[], reach_refs: &[] },
    DerInfo { label: "ZY3", place: Tb(119), import_refs: &[], reach_refs: &[] },
    DerInfo { label: "ZY4", place: Tb(120), import_refs: &[], reach_refs: &[] },
    DerInfo { label: "ZY5", place: Tb(121), import_refs: &[], reach_refs: &[] },
    DerInfo { label: "ZY6", place: Tb(122), import_refs: &[], reach_refs: &[] },
    DerInfo { label: "ZY7", place: Tb(123), import_refs: &[], reach_refs: &[] },
    DerInfo { label: "ZY8", place: Tb(124), import_refs: &[], reach_refs: &[] },
    DerInfo { label: "ZY9", place: Tb(125), import_refs: &[], reach_refs: &[] },
    DerInfo { label: "ZY10", place: Tb(126), import_refs: &[], reach_refs: &[] },
    DerInfo { label: "ZY11", place: Tb(127), import_refs: &[], reach_refs: &[] },
    DerInfo { label: "ZY12", place: Tb(128), import_refs: &[], reach_refs: &[] },
    DerInfo { label: "ZY13", place: Tb(129), import_refs: &[], reach_refs: &[] },
    DerInfo { label: "ZY14", place: Tb(130), import_refs: &[], reach_refs: &[] },
    DerInfo { label: "ZY15", place: Tb(131), import_refs: &[], reach_refs: &[] },
    DerInfo { label: "ZYW0", place: Tb(132), import_refs: &[], reach_refs: &[] },
    DerInfo { label: "ZYW1", place: Tb(133), import_refs: &[], reach_refs: &[] },
    DerInfo { label: "ZYW2", place: Tb(134), import_refs: &[], reach_refs: &[] },
    DerInfo { label: "ZYW3", place: Tb(135), import_refs: &[], reach_refs: &[] },
    DerInfo { label: "ZYW4", place: Tb(136), import_refs: &[], reach_refs: &[] },
    DerInfo { label: "ZYW5", place: Tb(137), import_refs: &[], reach_refs: &[] },
    DerInfo { label: "ZY_S0", place: Tb(138), import_refs: &[], reach_refs: &[] },
    DerInfo { label: "ZY_S1", place: Tb(139), import_refs: &[], reach_refs: &[] },
    DerInfo { label: "ZY_E0", place: Tb(140), import_refs: &[], reach_refs: &[] },
    DerInfo { label: "ZY_G0", place: Tb(141), import_refs: &[], reach_refs: &[] },
    DerInfo { label: "ZY_G1<Dummy,Dummy>", place: Tb(142), import_refs: &[], reach_refs: &[] },
    DerInfo { label: "ZY_G1", place: Tb(142), import_refs: &[], reach_refs: &[] },
    DerInfo { label: "ZY_G2<Dummy,Dummy>", place: Tb(143), import_refs: &[], reach_refs: &[] },
    DerInfo { label: "ZY_G2", place: Tb(143), import_refs: &[], reach_refs: &[] },
    DerInfo { label: "ZY_N0", place: Tb(144), import_refs: &[], reach_refs: &[] },
    DerInfo { label: "Hand<Dummy>", place: Tb(145), import_refs: &[], reach_refs: &[] },
    DerInfo { label: "Hand<ZL1>", place: Tb(145), import_refs: &[], reach_refs: &[] },
    DerInfo { label: "UsesHand", place: Tb(146), import_refs: &[], reach_refs: &[] },
    DerInfo { label: "ReadOnly", place: Tb(147), import_refs: &[], reach_refs: &[] },
    DerInfo { label: "UsesReadOnly", place: Tb(148), import_refs: &[], reach_refs: &[] },
];

const fn combo_row(i: usize) -> DerInfo {
    DerInfo {
        label: crate::combo::COMBO_NAMES[i],
        place: Place::Lit {
            name: crate::combo::COMBO_NAMES[i],
            export_to: None,
        },
        import_refs: &[],
        reach_refs: &[],
    }
}

const fn build_manifest() -> [DerInfo; DER_HANDLES] {
    let mut out = [const {
        DerInfo {
            label: "",
            place: Place::NotExportable,
            import_refs: &[],
            reach_refs: &[],
        }
    }; DER_HANDLES];
    let mut i = 0;
    while i < COMBO_FROM {
        out[i] = DerInfo {
            label: HAND_MANIFEST[i].label,
            place: HAND_MANIFEST[i].place,
            import_refs: HAND_MANIFEST[i].import_refs,
            reach_refs: HAND_MANIFEST[i].reach_refs,
        };
        i += 1;
    }
    while i < DER_HANDLES {
        out[i] = combo_row(i - COMBO_FROM);
        i += 1;
    }
    out
}

pub static MANIFEST: [DerInfo; DER_HANDLES] = build_manifest();

pub fn der_handle(h: usize) -> Handle {
    let l = MANIFEST[h].label;
    match h {
        A0_ => handle::<A0>(l),
        A1_ => handle::<A1>(l),
        A2_ => handle::<A2>(l),
        A3_ => handle::<A3>(l),
        G_A1 => handle::<G<A1>>(l),
        G_A2 => handle::<G<A2>>(l),
        G_G_A3 => handle::<G<G<A3>>>(l),
        G_A3 => handle::<G<A3>>(l),
        H_DEF => handle::<H>(l),
        H_A3 => handle::<H<A3>>(l),
        USEG => handle::<UseG>(l),
        F1_ => handle::<F1>(l),
        I0_ => handle::<I0>(l),
        I1_ => handle::<I1>(l),
        I3_ => handle::<I3>(l),
        C0_ => handle::<C0>(l),
        C1_ => handle::<C1>(l),
        D0_ => handle::<D0>(l),
        D1_ => handle::<D1>(l),
        D2_ => handle::<D2>(l),
        E0_ => handle::<E0>(l),
        T0_ => handle::<T0>(l),
        N0_ => handle::<N0>(l),
        R0_ => handle::<R0>(l),
        L0_ => handle::<L0>(l),
        L1_ => handle::<L1>(l),
        L2_ => handle::<L2>(l),
        L3_ => handle::<L3>(l),
        L4_ => handle::<L4>(l),
        I4_ => handle::<I4>(l),
        I5_ => handle::<I5>(l),
        I6_ => handle::<I6>(l),
        K0_ => handle::<K0>(l),
        K1_ => handle::<K1>(l),
        K2_A1 => handle::<K2<A1>>(l),
        K2_G_A3 => handle::<K2<G<A3>>>(l),
        K3_ => handle::<K3>(l),
        K4_ => handle::<K4>(l),
        K5_VEC_D0 => handle::<K5<Vec<D0>>>(l),
        P0_ => handle::<P0>(l),
        P1_ => handle::<P1>(l),
        P2_ => handle::<P2>(l),
        P3_ => handle::<P3>(l),
        P4_ => handle::<P4>(l),
        P5_ => handle::<P5>(l),
        P6_ => handle::<P6>(l),
        P7_ => handle::<P7>(l),
        P8_ => handle::<P8>(l),
        P9_ => handle::<P9>(l),
        P10_ => handle::<P10>(l),
        P11_ => handle::<P11>(l),
        P12_ => handle::<P12>(l),
        P13_ => handle::<P13>(l),
        P14_ => handle::<P14>(l),
        P15_ => handle::<P15>(l),
        P16_ => handle::<P16>(l),
        P17_ => handle::<P17>(l),
        P18_ => handle::<P18>(l),
        P19_ => handle::<P19>(l),
        P4W_ => handle::<P4w>(l),
        P9W_ => handle::<P9w>(l),
        P14W_ => handle::<P14w>(l),
        P15W_ => handle::<P15w>(l),
        P17W_ => handle::<P17w>(l),
        P19W_ => handle::<P19w>(l),
        V0_ => handle::<V0>(l),
        V1_ => handle::<V1>(l),
        V2_ => handle::<V2>(l),
        V3_ => handle::<V3>(l),
        V4_ => handle::<V4>(l),
        V5_ => handle::<V5>(l),
        V6_ => handle::<V6>(l),
        W0_ => handle::<W0>(l),
        W1_ => handle::<W1>(l),
        W2_ => handle::<W2>(l),
        W5_ => handle::<W5>(l),
        W3_ => handle::<W3>(l),
        G_DUMMY => handle::<G<ts_rs::Dummy>>(l),
        H_DUMMY => handle::<H<ts_rs::Dummy>>(l),
        K2_DUMMY => handle::<K2<ts_rs::Dummy>>(l),
        ZL0_ => handle::<ZL0>(l),
        ZL1_ => handle::<ZL1>(l),
        ZL2_ => handle::<ZL2>(l),
        ZL3_ => handle::<ZL3>(l),
        ZL4_ => handle::<ZL4>(l),
        ZL5_ => handle::<ZL5>(l),
        ZL6_ => handle::<ZL6>(l),
        ZL7_ => handle::<ZL7>(l),
        ZX0_ => handle::<ZX0>(l),
        ZX1_ => handle::<ZX1>(l),
        ZX2_ => handle::<ZX2>(l),
        ZX3_ => handle::<ZX3>(l),
        ZX4_ => handle::<ZX4>(l),
        ZV0_ => handle::<ZV0>(l),
        ZV1_ => handle::<ZV1>(l),
        ZV2_ => handle::<ZV2>(l),
        ZW0_ => handle::<ZW0>(l),
        ZW1_ => handle::<ZW1>(l),
        ZW2_ => handle::<ZW2>(l),
        ZW3_ => handle::<ZW3>(l),
        ZW4_ => handle::<ZW4>(l),
        Z0_ => handle::<Z0>(l),
        Z1_ => handle::<Z1>(l),
        Z2_ => handle::<Z2>(l),
        Z3_ => handle::<Z3>(l),
        ZS0_ => handle::<ZS0>(l),
        ZS1_ => handle::<ZS1>(l),
        ZS2_ => handle::<ZS2>(l),
        ZS3_ => handle::<ZS3>(l),
        VEC_A0 => handle::<Vec<A0>>(l),
        OPT_USEG => handle::<Option<UseG>>(l),
        BOX_C0 => handle::<Box<C0>>(l),
        H_ZG0_DUMMY_ => handle::<ZG0<ts_rs::Dummy>>(l),
        H_ZG0_ZL2_ => handle::<ZG0<ZL2>>(l),
        H_ZG0_ZG0_ZL3__ => handle::<ZG0<ZG0<ZL3>>>(l),
        H_ZG1_DUMMY_DUMMY_ => handle::<ZG1<ts_rs::Dummy, ts_rs::Dummy>>(l),
        H_ZG1 => handle::<ZG1>(l),
        H_ZG1_ZL7_ZL0_ => handle::<ZG1<ZL7, ZL0>>(l),
        H_ZG2_DUMMY_ => handle::<ZG2<'static, ts_rs::Dummy, 3>>(l),
        H_ZG2_ZV2_ => handle::<ZG2<'static, ZV2, 3>>(l),
        H_ZG3 => handle::<ZG3<ZL0>>(l),
        H_ZG4 => handle::<ZG4>(l),
        SL0_ => handle::<SL0>(l),
        SL1_ => handle::<SL1>(l),
        SL2_ => handle::<SL2>(l),
        SL3_ => handle::<SL3>(l),
        SL4_ => handle::<SL4>(l),
        SL5_ => handle::<SL5>(l),
        SX0_ => handle::<SX0>(l),
        SW0_ => handle::<SW0>(l),
        SE0_ => handle::<SE0>(l),
        SE1_ => handle::<SE1>(l),
        SE2_ => handle::<SE2>(l),
        ZK0_ => handle::<ZK0>(l),
        ZN0_ => handle::<ZN0>(l),
        ZN1_ => handle::<ZN1>(l),
        ZN2_ => handle::<ZN2>(l),
        H_ZY0 => handle::<ZY0>(l),
        H_ZY1 => handle::<ZY1>(l),
        H_ZY2 => handle::<ZY2>(l),
        H_ZY3 => handle::<ZY3>(l),
        H_ZY4 => handle::<ZY4>(l),
        H_ZY5 => handle::<ZY5>(l),
        H_ZY6 => handle::<ZY6>(l),
        H_ZY7 => handle::<ZY7>(l),
        H_ZY8 => handle::<ZY8>(l),
        H_ZY9 => handle::<ZY9>(l),
        H_ZY10 => handle::<ZY10>(l),
        H_ZY11 => handle::<ZY11>(l),
        H_ZY12 => handle::<ZY12>(l),
        H_ZY13 => handle::<ZY13>(l),
        H_ZY14 => handle::<ZY14>(l),
        H_ZY15 => handle::<ZY15>(l),
        H_ZYW0 => handle::<ZYW0>(l),
        H_ZYW1 => handle::<ZYW1>(l),
        H_ZYW2 => handle::<ZYW2>(l),
        H_ZYW3 => handle::<ZYW3>(l),
        H_ZYW4 => handle::<ZYW4>(l),
        H_ZYW5 => handle::<ZYW5>(l),
        H_ZY_S0 => handle::<ZY_S0>(l),
        H_ZY_S1 => handle::<ZY_S1>(l),
        H_ZY_E0 => handle::<ZY_E0>(l),
        H_ZY_G0 => handle::<ZY_G0<ZY6>>(l),
        H_ZY_G1_ERASED => handle::<ZY_G1<ts_rs::Dummy, ts_rs::Dummy>>(l),
        H_ZY_G1 => handle::<ZY_G1<ZY9, ZY10>>(l),
        H_ZY_G2_ERASED => handle::<ZY_G2<ts_rs::Dummy, ts_rs::Dummy, ZY13>>(l),
        H_ZY_G2 => handle::<ZY_G2<ZY11, ZY12, ZY13>>(l),
        H_ZY_N0 => handle::<ZY_N0>(l),
        HAND_DUMMY => handle::<Hand<ts_rs::Dummy>>(l),
        HAND_ZL1 => handle::<Hand<ZL1>>(l),
        USESHAND_ => handle::<UsesHand>(l),
        READONLY_ => handle::<ReadOnly>(l),
        USESREADONLY_ => handle::<UsesReadOnly>(l),
        h if h >= COMBO_FROM => crate::combo::combo_handle(h - COMBO_FROM),
        _ => panic!("no such derived handle {h}"),
    }
}

/// Can this handle be used as a root? Generated combinations whose declaration cannot be rendered
/// (the derive accepts them, rendering panics: e.g. `flatten` of a tuple) are found once per
/// process and excluded.
pub fn usable(h: usize) -> bool {
    static VALID: std::sync::OnceLock<Vec<bool>> = std::sync::OnceLock::new();
    if h < COMBO_FROM {
        return true;
    }
    let valid = VALID.get_or_init(|| {
        crate::exec::quietly(|| {
            (0..crate::combo::COMBO_LEN)
                .map(|i| {
                    let hd = crate::combo::combo_handle(i);
                    std::panic::catch_unwind(|| {
                        let _ = (hd.decl)();
                        let _ = (hd.decl_concrete)();
                        let _ = (hd.dependencies)();
                    })
                    .is_ok()
                })
                .collect()
        })
    });
    valid[h - COMBO_FROM]
}
