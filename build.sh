#!/bin/bash
# Build the simulator against /repo's current working tree with the hooks enabled.
# usage: build.sh [default|esm|format]   -> /verif/target/bin/tsrs-sim-<config>
set -u
cfg="${1:-default}"
cd /verif/sim || exit 2
export CARGO_NET_OFFLINE=true
export RUSTFLAGS="--cfg ts_rs_verif"
export CARGO_TARGET_DIR=/verif/target
# the lock file is pruned by cargo on first use; restore it from the repository's if missing
[ -f Cargo.lock ] || cp /repo/Cargo.lock Cargo.lock
case "$cfg" in
  default) feats="" ;;
  esm) feats="--features esm" ;;
  format) feats="--features format" ;;
  *) echo "unknown config $cfg" >&2; exit 2 ;;
esac
log=$(mktemp /verif/target/build.XXXXXX.log 2>/dev/null || mktemp)
mkdir -p /verif/target/bin
if ! cargo build --release --offline $feats >"$log" 2>&1; then
  grep -E "^error" -A15 "$log" | head -80 >&2
  echo "HARNESS ERROR: build failed (config $cfg); full log: $log" >&2
  exit 2
fi
rm -f "$log"
cp -f /verif/target/release/tsrs-sim "/verif/target/bin/tsrs-sim-$cfg" || exit 2
