#!/bin/bash
# Build the simulator against /repo's current working tree with the hooks enabled.
# usage: build.sh [default|esm|format]   -> /verif/target/bin/tsrs-sim-<config>
set -u
cfg="${1:-default}"
export CARGO_NET_OFFLINE=true
export RUSTFLAGS="--cfg ts_rs_verif"
if [ -n "${VERIF_REPO:-}" ]; then
  # tooling only (tools/sensitivity.sh): build the same simulator sources against another
  # checkout of the repository, through a shadow manifest, into a separate target directory.
  # The registered checks never set this and always build from /repo.
  shadow=/verif/target/${VERIF_SHADOW:-shadow}
  mkdir -p "$shadow"
  sed -e "s|path = \"/repo/ts-rs\"|path = \"$VERIF_REPO/ts-rs\"|" /verif/sim/Cargo.toml > "$shadow/Cargo.toml"
  # a snapshot of the simulator sources taken by the caller, so that edits under /verif/sim
  # while a long tooling run is in progress cannot change what it builds
  simsrc=${VERIF_SIM_SRC:-/verif/sim/src}
  printf '\n[[bin]]\nname = "tsrs-sim"\npath = "%s/main.rs"\n' "$simsrc" >> "$shadow/Cargo.toml"
  [ -f "$shadow/Cargo.lock" ] || cp /repo/Cargo.lock "$shadow/Cargo.lock"
  cd "$shadow" || exit 2
  export CARGO_TARGET_DIR=$shadow-target
  bindir=$shadow-bin
else
  cd /verif/sim || exit 2
  export CARGO_TARGET_DIR=/verif/target
  bindir=/verif/target/bin
  # the lock file is pruned by cargo on first use; restore it from the repository's if missing
  [ -f Cargo.lock ] || cp /repo/Cargo.lock Cargo.lock
fi
case "$cfg" in
  default) feats="" ;;
  esm) feats="--features esm" ;;
  format) feats="--features format" ;;
  *) echo "unknown config $cfg" >&2; exit 2 ;;
esac
log=$(mktemp /verif/target/build.XXXXXX.log 2>/dev/null || mktemp)
mkdir -p "$bindir"
if ! cargo build --release --offline $feats >"$log" 2>&1; then
  grep -E "^error" -A15 "$log" | head -80 >&2
  echo "HARNESS ERROR: build failed (config $cfg); full log: $log" >&2
  exit 2
fi
rm -f "$log"
cp -f "$CARGO_TARGET_DIR/release/tsrs-sim" "$bindir/tsrs-sim-$cfg" || exit 2
