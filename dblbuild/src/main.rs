//! Cross-check for C13 outside the simulator: a corpus with many dependencies per type, built
//! with the guard OFF (the derive's real HashSet iteration order, fresh hash seeds in every
//! rustc process). `tools/double_build.sh` compiles this several times from scratch, runs each
//! binary and diffs the dumps: every public string-returning function of every type and the
//! exported tree must be byte-identical across builds.

#![allow(dead_code)]

use std::collections::{BTreeMap, HashMap, HashSet};

use ts_rs::TS;

#[derive(TS)]
#[ts(export_to = "shared/leaves.ts")]
struct L1(String);
#[derive(TS)]
#[ts(export_to = "shared/leaves.ts")]
struct L2 {
    x: i32,
}
#[derive(TS)]
#[ts(export_to = "shared/leaves.ts")]
enum L3 {
    A,
    B { l: L1 },
}
#[derive(TS)]
#[ts(export_to = "shared/leaves.ts")]
struct L4(Option<L2>);
#[derive(TS)]
struct L5 {
    a: L1,
    b: L3,
}
#[derive(TS)]
#[ts(export_to = "deep/er/")]
struct L6 {
    m: HashMap<String, L4>,
}
#[derive(TS)]
#[ts(export_to = "deep/L7.ts")]
struct L7(Vec<L5>, L6);
#[derive(TS)]
#[ts(export_to = "../side/L8.ts")]
struct L8 {
    s: HashSet<String>,
}

#[derive(TS)]
struct G<T, U = L1> {
    t: T,
    u: Vec<U>,
    k: L2,
}

#[derive(TS)]
#[ts(export_to = "shared/mid.ts")]
struct M1 {
    a: L1,
    b: L2,
    c: L3,
    d: L4,
    e: L5,
    f: L6,
    g: L7,
    h: L8,
}
#[derive(TS)]
#[ts(export_to = "shared/mid.ts")]
struct M2 {
    #[ts(inline)]
    i: L5,
    #[ts(flatten)]
    f: L2,
    g1: G<L3>,
    g2: G<L4, L6>,
    g3: G<G<L7, L8>>,
    t: (L1, L2, L3),
    r: Result<L4, L5>,
    bm: BTreeMap<String, L6>,
}
#[derive(TS)]
#[ts(export_to = "shared/mid.ts", tag = "t", content = "c")]
enum M3 {
    V1(L1, L8),
    V2 { a: L7, b: L6, c: L5 },
    V3(Box<M3>),
    V4(M1),
}
// the same type inlined / flattened and named, several structurally identical copies (each
// derive expansion has its own hash state)
#[derive(TS)]
struct Both1 {
    #[ts(inline)]
    head: L5,
    tail: L5,
}
#[derive(TS)]
struct Both2 {
    tail: L5,
    #[ts(inline)]
    head: L5,
}
#[derive(TS)]
struct Both3 {
    #[ts(flatten)]
    head: L2,
    tail: L2,
    other: L6,
}
#[derive(TS)]
enum Both4 {
    A(#[ts(inline)] L5),
    B(L5),
    C { #[ts(inline)] x: L7, y: L7 },
}
#[derive(TS)]
struct Both5 {
    #[ts(inline)]
    a: G<L3>,
    b: G<L3>,
    c: Vec<G<L3>>,
}

// several free type parameters next to a concrete one; duplicate TypeScript keys; concrete + default
#[derive(TS)]
#[ts(concrete(C = L1))]
struct Free3<A, B, C, D> {
    a: A,
    b: Vec<B>,
    c: C,
    d: Option<D>,
}
#[derive(TS)]
struct Dup {
    #[ts(rename = "x")]
    first: L1,
    #[ts(rename = "x")]
    second: L2,
    third: L3,
    fourth: L4,
    fifth: L5,
}
#[derive(TS)]
#[ts(concrete(U = L2))]
struct ConcDef<T, U = L3, V = L4> {
    t: T,
    u: U,
    v: V,
}

/// Root with everything.
#[derive(TS)]
struct Root {
    m1: M1,
    m2: M2,
    m3: M3,
    l: [L8; 2],
    o: Option<Vec<Option<L3>>>,
    #[ts(as = "L4")]
    z: i64,
    #[ts(type = "Array<string>")]
    y: L2,
}
#[derive(TS)]
struct Root2 {
    a: M3,
    b: G<Root, M2>,
    c: L8,
    d: L7,
}

fn dump<T: TS + 'static>(out: &mut String) {
    out.push_str(&format!("== {}\n", std::any::type_name::<T>()));
    out.push_str(&format!("name: {}\n", T::name()));
    out.push_str(&format!("ident: {}\n", T::ident()));
    out.push_str(&format!("decl: {}\n", T::decl()));
    out.push_str(&format!("decl_concrete: {}\n", T::decl_concrete()));
    out.push_str(&format!("inline: {}\n", T::inline()));
    out.push_str(&format!("export_to_string:\n{}\n", T::export_to_string().unwrap()));
    let mut deps: Vec<String> = T::dependencies()
        .into_iter()
        .map(|d| format!("{}@{}", d.ts_name, d.output_path.display()))
        .collect();
    deps.sort();
    deps.dedup();
    out.push_str(&format!("dependency set: {deps:?}\n"));
}

fn walk(dir: &std::path::Path, base: &std::path::Path, out: &mut BTreeMap<String, String>) {
    if let Ok(rd) = std::fs::read_dir(dir) {
        for e in rd.flatten() {
            let p = e.path();
            if p.is_dir() {
                walk(&p, base, out);
            } else {
                let rel = p.strip_prefix(base).unwrap().to_string_lossy().into_owned();
                out.insert(rel, std::fs::read_to_string(&p).unwrap_or_default());
            }
        }
    }
}

fn main() {
    let dir = std::path::PathBuf::from(std::env::args().nth(1).expect("usage: tsrs-dblbuild <empty dir>"));
    let base = dir.join("a/b/out");
    let mut out = String::new();
    dump::<L1>(&mut out);
    dump::<L3>(&mut out);
    dump::<L5>(&mut out);
    dump::<L7>(&mut out);
    dump::<G<L3>>(&mut out);
    dump::<G<L4, L6>>(&mut out);
    dump::<M1>(&mut out);
    dump::<M2>(&mut out);
    dump::<M3>(&mut out);
    dump::<Both1>(&mut out);
    dump::<Both2>(&mut out);
    dump::<Both3>(&mut out);
    dump::<Both4>(&mut out);
    dump::<Both5>(&mut out);
    dump::<Free3<L1, L2, L1, L3>>(&mut out);
    dump::<Dup>(&mut out);
    dump::<ConcDef<L5, L2, L6>>(&mut out);
    dump::<Root>(&mut out);
    dump::<Root2>(&mut out);
    // export in the order a test binary would (alphabetical), everything with dependencies
    Root2::export_all_to(&base).unwrap();
    Root::export_all_to(&base).unwrap();
    M3::export_all_to(&base).unwrap();
    G::<L3>::export_all_to(&base).unwrap();
    Both1::export_all_to(&base).unwrap();
    Both2::export_all_to(&base).unwrap();
    Both3::export_all_to(&base).unwrap();
    Both4::export_all_to(&base).unwrap();
    Both5::export_all_to(&base).unwrap();
    let mut tree = BTreeMap::new();
    walk(&dir, &dir, &mut tree);
    for (k, v) in tree {
        out.push_str(&format!("===== file {k}\n{v}\n"));
    }
    print!("{out}");
}
