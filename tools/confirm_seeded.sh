#!/bin/bash
# Confirm a seeded change produced by a sub-agent, in its own scratch worktree:
#  - the patch applies, the pinned suite passes with it,
#  - the demonstration fails with it and passes without it.
# usage: confirm_seeded.sh <worktree> <k>      (reads <worktree>/out/<k>/)
set -u
wt=$1; k=$2
d=$wt/out/$k
cd "$wt" || exit 2
export CARGO_NET_OFFLINE=true
git checkout -q -- . ; git clean -fdq -e out -e target
res() { echo "RESULT $(basename $wt)-$k $*"; }
git apply --check "$d/patch.diff" || { res "patch-does-not-apply"; exit 1; }
# unpatched demo
bash "$d/demo.sh" >/tmp/confirm-$(basename $wt)-$k-clean.log 2>&1; clean_rc=$?
git checkout -q -- . ; git clean -fdq -e out -e target
git apply "$d/patch.diff"
cargo test --workspace --no-fail-fast --offline >/tmp/confirm-$(basename $wt)-$k-suite.log 2>&1; suite_rc=$?
passed=$(grep -E "^test result" /tmp/confirm-$(basename $wt)-$k-suite.log | awk '{s+=$4} END {print s}')
failed=$(grep -E "^test result" /tmp/confirm-$(basename $wt)-$k-suite.log | awk '{s+=$6} END {print s}')
bash "$d/demo.sh" >/tmp/confirm-$(basename $wt)-$k-patched.log 2>&1; patched_rc=$?
git checkout -q -- . ; git clean -fdq -e out -e target
res "suite_rc=$suite_rc passed=$passed failed=$failed demo_unpatched_rc=$clean_rc demo_patched_rc=$patched_rc"
