#!/usr/bin/env python3
"""Markdown table of which check caught which deliberate change, from sensitivity logs.
usage: matrix_table.py <log>...   (later logs override earlier ones per (change, property))"""
import re, sys, json, os

PROPS = ["C03", "C04", "C05", "C06", "C08", "C11", "C13", "C17"]
res = {}
for path in sys.argv[1:]:
    for line in open(path):
        m = re.match(r"(\S+) (C\d\d) (CAUGHT|missed) \((.*)\)\s*$", line.strip())
        if not m:
            continue
        name, prop, verdict, rest = m.groups()
        cell = "–"
        if verdict == "CAUGHT":
            mm = re.match(r"(\d+) violating runs of (\d+) seeds; minimised: (\S+)", rest)
            ops = re.search(r"ops (\d+)->(\d+)", rest)
            rep = "" if "replay reproduces" in rest else " (!replay)"
            if mm:
                cell = f"✓ {mm.group(1)}/{mm.group(2)} {mm.group(3)}" + (f" {ops.group(1)}→{ops.group(2)}" if ops else "") + rep
            else:
                cell = "✓"
        res.setdefault(name, {})[prop] = cell

def target(name):
    meta = f"/verif/seeded/{name}/meta.json"
    if os.path.exists(meta):
        return json.load(open(meta)).get("breaks_property", "")
    return ""

print("| change | aimed at | " + " | ".join(PROPS) + " |")
print("|---|---|" + "---|" * len(PROPS))
for name in sorted(res):
    row = res[name]
    print(f"| {name} | {target(name)} | " + " | ".join(row.get(p, "") for p in PROPS) + " |")
caught = sum(1 for n in res if any(c.startswith("✓") for c in res[n].values()))
print(f"\n{caught} of {len(res)} changes caught by at least one check.")
