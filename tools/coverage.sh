#!/bin/bash
# Line coverage of the ts-rs export runtime under the simulator (evidence of reach, not a check).
# Builds the simulator with the nightly toolchain and -C instrument-coverage, runs every
# property's generator for a few thousand seeds without forking, merges the profiles and
# reports per-file coverage of /repo/ts-rs/src plus the uncovered lines of export.rs / path.rs.
# usage: tools/coverage.sh [RUNS]      output: /verif/evidence/coverage.txt
set -u
RUNS=${1:-4000}
TOOLS=$(ls -d ~/.rustup/toolchains/nightly-x86_64-unknown-linux-gnu/lib/rustlib/x86_64-unknown-linux-gnu/bin)
cd /verif/sim || exit 2
export CARGO_NET_OFFLINE=true
export RUSTFLAGS="--cfg ts_rs_verif -C instrument-coverage"
export CARGO_TARGET_DIR=/verif/target/cov
LLVM_PROFILE_FILE=/verif/target/cov-build-%p.profraw cargo +nightly build --release --offline >/verif/target/cov-build.log 2>&1 || { tail -20 /verif/target/cov-build.log; echo "coverage build failed"; exit 2; }
work=/verif/target/cov-prof; rm -rf "$work"; mkdir -p "$work"
bin=/verif/target/cov/release/tsrs-sim
for p in C05 C06 C13 C17 C11 C03 C08 C04; do
  n=$RUNS; [ "$p" = C17 ] && n=$((RUNS / 8))
  VERIF_NO_FORK=1 LLVM_PROFILE_FILE="$work/$p-%p.profraw" "$bin" run "$p" --runs "$n" --workers 8 --evidence /tmp/cov-ev.json --replays /tmp/cov-rp >/dev/null 2>&1
done
"$TOOLS/llvm-profdata" merge -sparse "$work"/*.profraw -o "$work/all.profdata" || exit 2
out=/verif/evidence/coverage.txt
{
  echo "Line coverage of ts-rs sources while driven by the simulator (guard on; $RUNS seeds per property, C17 $((RUNS/8)));"
  echo "produced by tools/coverage.sh at /repo $(git -C /repo rev-parse --short HEAD), /verif $(git -C /verif rev-parse --short HEAD)"
  echo
  "$TOOLS/llvm-cov" report "$bin" -instr-profile="$work/all.profdata" /repo/ts-rs/src/export.rs /repo/ts-rs/src/export/path.rs /repo/ts-rs/src/export/error.rs /repo/ts-rs/src/verif_seam.rs /repo/ts-rs/src/lib.rs 2>/dev/null
  echo
  echo "== uncovered lines of export.rs and export/path.rs =="
  "$TOOLS/llvm-cov" show "$bin" -instr-profile="$work/all.profdata" /repo/ts-rs/src/export.rs /repo/ts-rs/src/export/path.rs -show-line-counts-or-regions=false 2>/dev/null | grep -E "^\s+[0-9]+\|\s+0\|" | head -80
} > "$out"
cat "$out" | head -60
