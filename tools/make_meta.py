#!/usr/bin/env python3
"""Write /verif/seeded/<id>/meta.json from the confirmation results and the sensitivity matrix.

usage: make_meta.py <confirm-results-file> <sensitivity-log>...
  confirm-results-file: lines `RESULT wt-<id>-<k> suite_rc=.. passed=.. failed=.. demo_unpatched_rc=.. demo_patched_rc=..`
  sensitivity-log:      lines `<id>-<k> <PROP> CAUGHT (...)` / `<id>-<k> <PROP> missed (...)`
"""
import json, os, re, sys

confirm = {}
for line in open(sys.argv[1]):
    m = re.match(r"RESULT wt-(\S+) (.*)", line.strip())
    if m:
        confirm[m.group(1)] = dict(kv.split("=") for kv in m.group(2).split())

matrix = {}
for path in sys.argv[2:]:
    for line in open(path):
        m = re.match(r"(\S+) (C\d\d) (CAUGHT|missed)(.*)", line.strip())
        if m:
            matrix.setdefault(m.group(1), {})[m.group(2)] = (m.group(3), m.group(4).strip())

TARGET = {"C05a": "C05", "C05b": "C05", "C06a": "C06", "C13a": "C13", "C17a": "C17", "C17b": "C17",
          "C11a": "C11", "C03a": "C03", "C08a": "C08", "C04a": "C04",
          "R2C05": "C05", "R2C06": "C06", "R2C13": "C13", "R2C11": "C11", "R2C03": "C03",
          "R2C08": "C08", "R2C17": "C17", "R2C04": "C04", "R2MIXa": "C05", "R2MIXb": "C06",
          "R4a": "C03", "R4b": "C11", "R4c": "C03", "R4d": "C11", "R4e": "C06", "R4f": "C13", "R4g": "C17", "R4h": "C04",
          "R8a": "C05", "R8b": "C06", "R8c": "C11", "R8d": "C17",
          "R7a-1": "C17", "R7a-2": "C03", "R7b": "C04", "R7c-1": "C05", "R7c-2": "C06", "R7d-1": "C17", "R7d-2": "C08",
          "R6a": "C03", "R6b": "C11", "R6c": "C05", "R6d": "C17", "R6e": "C06", "R6f": "C13",
          "R5a": "C11", "R5b": "C03", "R5c": "C04", "R5d": "C13", "R5e": "C06", "R5f": "C03",
          "R3a": "C03", "R3b": "C11", "R3c": "C11", "R3d": "C13", "R3e": "C06", "R3f": "C17", "R3g": "C05", "R3h": "C08"}

root = "/verif/seeded"
for d in sorted(os.listdir(root)):
    full = os.path.join(root, d)
    if not os.path.isdir(full):
        continue
    batch = d.rsplit("-", 1)[0]
    notes = ""
    try:
        notes = open(os.path.join(full, "notes.md")).read()
    except OSError:
        pass
    needs = " ".join(notes.split())[:900]
    res = matrix.get(d, {})
    meta = {
        "id": d,
        "breaks_property": TARGET.get(d, TARGET.get(batch, "?")),
        "produced_by": "independent sub-agent given only the property text and a scratch worktree of /repo",
        "needs_to_manifest": needs,
        "confirmed": {
            "pinned_suite_with_patch": confirm.get(d, {}),
            "how": "tools/confirm_seeded.sh <worktree> <k>: patch applies; `cargo test --workspace --no-fail-fast --offline` passes with it; demo.sh fails with it and passes without it",
        },
        "checks_run": "tools/sensitivity.sh seeded/%s/patch.diff (git -C /repo apply; rebuild simulator; every property's check at RUNS=5000 seeds, C17 at 500; replay of the first minimised file in a fresh process; git -C /repo checkout -- .)" % d,
        "caught_by": sorted(p for p, (r, _) in res.items() if r == "CAUGHT"),
        "missed_by": sorted(p for p, (r, _) in res.items() if r == "missed"),
        "detail": {p: t for p, (r, t) in sorted(res.items()) if r == "CAUGHT"},
    }
    if os.path.exists(os.path.join(full, "patch.orig.diff")):
        meta["note"] = "patch.diff is the agent's patch rebased onto the later hook commit 69a4faf (context lines / its own cfg(ts_rs_verif) shim lines only); patch.orig.diff is what the agent produced and what was confirmed"
    json.dump(meta, open(os.path.join(full, "meta.json"), "w"), indent=1)
    print(d, meta["breaks_property"], "caught by", meta["caught_by"], "missed by", meta["missed_by"])
