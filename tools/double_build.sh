#!/bin/bash
# C13 cross-check outside the simulator: N real from-scratch compilations of /verif/dblbuild
# (guard OFF: the derive's real HashSet order, a fresh hash seed per rustc process), each binary
# run once; dumps of all string-returning functions and of the exported tree must be identical.
# usage: double_build.sh [N] [default|esm]     exit 0 identical, 1 differ (prints VIOLATION), 2 error
set -u
N=${1:-3}
CFG=${2:-default}
export CARGO_NET_OFFLINE=true
unset RUSTFLAGS
if [ -n "${VERIF_REPO:-}" ]; then
  # tooling only (tools/sensitivity.sh): same sources against another checkout of the repository
  sh=/verif/target/${VERIF_SHADOW:-shadow}-dbl
  mkdir -p "$sh"
  sed -e "s|path = \"/repo/ts-rs\"|path = \"$VERIF_REPO/ts-rs\"|" /verif/dblbuild/Cargo.toml > "$sh/Cargo.toml"
  printf '\n[[bin]]\nname = "tsrs-dblbuild"\npath = "/verif/dblbuild/src/main.rs"\n' >> "$sh/Cargo.toml"
  [ -f "$sh/Cargo.lock" ] || cp /repo/Cargo.lock "$sh/Cargo.lock"
  cd "$sh" || exit 2
  export CARGO_TARGET_DIR=$sh-target
  TOUCH=/verif/dblbuild/src/main.rs
else
  cd /verif/dblbuild || exit 2
  export CARGO_TARGET_DIR=/verif/target/dbl
  [ -f Cargo.lock ] || cp /repo/Cargo.lock Cargo.lock
  TOUCH=src/main.rs
fi
feats=""; [ "$CFG" = esm ] && feats="--features esm"
work=$CARGO_TARGET_DIR-run
rm -rf "$work"; mkdir -p "$work"
for i in $(seq 1 "$N"); do
  touch "$TOUCH"
  if ! cargo build --offline $feats >"$work/build$i.log" 2>&1; then
    grep -E "^error" -A10 "$work/build$i.log" | head -40 >&2
    echo "HARNESS ERROR: double-build compilation $i failed" >&2; exit 2
  fi
  mkdir -p "$work/tree$i"
  if ! "$CARGO_TARGET_DIR/debug/tsrs-dblbuild" "$work/tree$i" >"$work/dump$i.txt" 2>"$work/run$i.err"; then
    echo "HARNESS ERROR: double-build run $i failed: $(head -5 "$work/run$i.err")" >&2; exit 2
  fi
done
rc=0
for i in $(seq 2 "$N"); do
  if ! cmp -s "$work/dump1.txt" "$work/dump$i.txt"; then
    rc=1
    mkdir -p "${VERIF_REPLAYS:-/verif/replays}"
    rp=${VERIF_REPLAYS:-/verif/replays}/C13-doublebuild-$CFG.json
    diff "$work/dump1.txt" "$work/dump$i.txt" | head -60 > "$work/diff.txt"
    jq -n --arg cfg "$CFG" --arg n "$N" --rawfile d "$work/diff.txt" \
      '{property:"C13", kind:"double-build", config:$cfg, builds:($n|tonumber), oracle:"double-build-diff", detail:("two real compilations of /verif/dblbuild produced different dumps:\n"+$d), note:"replay = re-run tools/double_build.sh; reproduction depends on the hash seeds of the new compilations"}' > "$rp"
    echo "--- dumps of compilation 1 and $i differ ---"; cat "$work/diff.txt"
    echo "VIOLATION property=C13 replay=$rp"
    break
  fi
done
[ $rc -eq 0 ] && echo "double build ($CFG): $N compilations, dumps identical ($(wc -c < "$work/dump1.txt") bytes, $(grep -c '^===== file' "$work/dump1.txt") files)"
exit $rc
