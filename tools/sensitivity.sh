#!/bin/bash
# Apply each patch (deliberate property-breaking change) to a scratch worktree of /repo, rebuild the
# simulator, run the given checks with a reduced run count, record which check reports a
# violation, and undo the patch. Never commits anything to /repo.
#
#   tools/sensitivity.sh <patch.diff>... [-- PROP...]      (default: all properties)
#   RUNS=20000 tools/sensitivity.sh sensitivity/M03*.diff -- C05 C06
#
# Output: one line per (patch, property): CAUGHT / missed, plus the oracle of the first replay.
set -u
cd /verif || exit 2
patches=()
props=()
seen_sep=0
for a in "$@"; do
  if [ "$a" = "--" ]; then seen_sep=1; continue; fi
  if [ $seen_sep = 0 ]; then patches+=("$a"); else props+=("$a"); fi
done
[ ${#props[@]} -eq 0 ] && props=(C05 C06 C13 C17 C11 C03 C08 C04)
RUNS=${RUNS:-20000}
CFG=${CFG:-default}
# Works on a scratch worktree of /repo's HEAD (never on /repo itself), built through the shadow
# manifest of build.sh, so that it can run while /repo is in use; removed again at the end.
SCR=${SENS_REPO:-/tmp/sens-repo}
git -C /repo worktree remove --force "$SCR" 2>/dev/null
git -C /repo worktree add -q --detach "$SCR" HEAD || exit 2
export VERIF_REPO=$SCR
export VERIF_SIM_SRC=/verif/target/${VERIF_SHADOW:-shadow}-src
rm -rf "$VERIF_SIM_SRC"; mkdir -p /verif/target; cp -r /verif/sim/src "$VERIF_SIM_SRC"
BIN=/verif/target/${VERIF_SHADOW:-shadow}-bin
trap 'git -C /repo worktree remove --force "$SCR" 2>/dev/null' EXIT
for p in "${patches[@]}"; do
  name=$(basename "$p" .diff)
  [ "$name" = patch ] && name=$(basename "$(dirname "$p")")
  git -C "$SCR" checkout -- .
  if ! git -C "$SCR" apply "$(realpath "$p")"; then echo "$name: PATCH DOES NOT APPLY"; continue; fi
  if ! /verif/build.sh "$CFG" 2>/tmp/sens-build.log; then
    echo "$name: BUILD FAILED (with hooks on)"; head -20 /tmp/sens-build.log; git -C "$SCR" checkout -- .; continue
  fi
  for prop in "${props[@]}"; do
    n=$RUNS
    [ "$prop" = C17 ] && n=$((RUNS / 10))
    rd=/tmp/sens-replays/$name/$prop
    rm -rf "$rd"; mkdir -p "$rd"
    out=$(VERIF_MAX_MINIMISE=${VERIF_MAX_MINIMISE:-1} "$BIN/tsrs-sim-$CFG" run "$prop" --config "$CFG" --runs "$n" --workers "${VERIF_WORKERS:-16}" --evidence "/tmp/sens-ev.json" --replays "$rd" 2>&1)
    rc=$?
    if [ $rc -eq 1 ]; then
      first=$(ls "$rd"/*.json 2>/dev/null | head -1)
      nrep=$(ls "$rd"/*.json 2>/dev/null | wc -l)
      oracles=$(for f in "$rd"/*.json; do jq -r .oracle "$f"; done | sort | uniq -c | sort -rn | awk '{printf "%s x%s ", $2, $1}')
      total=$(echo "$out" | grep -oE "[0-9]+ violating runs" | head -1)
      # the minimised replay must reproduce the same violation in a fresh process
      rp=$("$BIN/tsrs-sim-$CFG" replay "$first" 2>&1); rprc=$?
      if [ $rprc -eq 1 ] && echo "$rp" | grep -q -- "--- $(jq -r .oracle "$first") "; then rpl="replay reproduces"; else rpl="REPLAY DOES NOT REPRODUCE (rc=$rprc)"; fi
      echo "$name $prop CAUGHT ($total of $n seeds; minimised: $oracles; ops $(jq -r '.ops_before_minimisation' "$first")->$(jq -r '.ops_after_minimisation' "$first"); $rpl)"
    elif [ $rc -eq 0 ] && [ "$prop" = C13 ] && [ "$CFG" = default ] && ! VERIF_REPLAYS="$rd" /verif/tools/double_build.sh 5 default >/tmp/sens-dbl-$$.log 2>&1; then
      # the second half of the C13 check: real compilations of /verif/dblbuild
      echo "$name $prop CAUGHT (by the real double build, 5 compilations; simulator: 0 violating runs of $n seeds; $(grep -m1 -E '^[<>] ' /tmp/sens-dbl-$$.log | cut -c1-80))"
    elif [ $rc -eq 0 ]; then
      echo "$name $prop missed ($n seeds)"
    else
      echo "$name $prop HARNESS ERROR"; echo "$out" | tail -5
    fi
  done
  git -C "$SCR" checkout -- .
done
